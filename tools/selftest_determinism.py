"""Determinism self-test: every run index must give the same record (event digest, outcome class,
step count, counters, sample) when the batch is repeated, under another PYTHONHASHSEED in a fresh
interpreter, and with 1 worker instead of 16.

usage: python3 tools/selftest_determinism.py [quick|thorough]   -> exit 0 identical / 2 mismatch
"""
import json
import os
import subprocess
import sys
import tempfile

VERIF = os.path.dirname(os.path.dirname(os.path.abspath(__file__)))
N = {'quick': {'C13': 400, 'C14': 120, 'C15': 400, 'C18': 400, 'C19': 300, 'C20': 48},
     'thorough': {'C13': 4000, 'C14': 800, 'C15': 4000, 'C18': 4000, 'C19': 2000, 'C20': 400}}
tier = sys.argv[1] if len(sys.argv) > 1 else 'quick'
only = sys.argv[2:] or sorted(N[tier])
CONFIGS = [('hs0_j16_a', '0', 16), ('hs0_j16_b', '0', 16), ('hs4242_j1', '4242', 1), ('hs1_j5', '1', 5)]
bad = 0
for cid in only:
    n = N[tier][cid]
    recs = {}
    for name, hs, jobs in CONFIGS:
        nn = n if jobs > 1 else max(12, n // 6)
        out = tempfile.mktemp(prefix='det_%s_%s_' % (cid, name), suffix='.json')
        env = dict(os.environ, PYTHONHASHSEED=hs, VERIF_NO_REEXEC='1', VERIF_RECORD='1',
                   VERIF_SEED=os.environ.get('VERIF_SEED', '0'))
        p = subprocess.run(['/venv/bin/python', os.path.join(VERIF, 'simkit', 'cli.py'), cid, '--runs', str(nn),
                            '--jobs', str(jobs), '--no-evidence', '--no-minimise', '--dump', out],
                           env=env, stdout=subprocess.PIPE, stderr=subprocess.STDOUT)
        if p.returncode not in (0, 1) or not os.path.exists(out):
            print('HARNESS-ERROR: %s %s exit=%d\n%s' % (cid, name, p.returncode, p.stdout.decode()[-800:]))
            bad += 1
            continue
        recs[name] = json.load(open(out))
        os.unlink(out)
    names = list(recs)
    ref = recs.get(names[0], {}) if names else {}
    for name in names[1:]:
        common = [k for k in recs[name] if k in ref]
        diff = [k for k in common if recs[name][k] != ref[k]]
        print('%s %s vs %s: %d runs compared, %d differ' % (cid, names[0], name, len(common), len(diff)))
        if diff or not common:
            bad += 1
            for k in diff[:3]:
                print('   idx', k, ref[k], recs[name][k])
print('determinism self-test:', 'FAILED' if bad else 'ok')
sys.exit(2 if bad else 0)
