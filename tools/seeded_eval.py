"""Confirm an independently produced breaking change and run the checks against it.

usage: /venv/bin/python tools/seeded_eval.py <dir with patch.diff, demo.py[, notes.md]> <PROPERTY> <name> [--no-tests] [--tier quick]

Steps (all in a scratch git worktree of /repo under /tmp, removed afterwards):
  1. demo on the clean tree            -> must exit 0
  2. git apply patch; demo             -> must exit != 0
  3. pinned test suite with the patch  -> all stable_pass tests must still pass
  4. ./check <PROPERTY> (VERIF_REPO=worktree) -> detected iff exit 1
The change is kept as /verif/seeded/<name>/{patch.diff, demo.py, notes.md, meta.json} only if 1-3 hold.
"""
import json
import os
import shutil
import subprocess
import sys
import time

VERIF = os.path.dirname(os.path.dirname(os.path.abspath(__file__)))


def sh(cmd, **kw):
    p = subprocess.run(cmd, stdout=subprocess.PIPE, stderr=subprocess.STDOUT, **kw)
    return p.returncode, p.stdout.decode(errors='replace')


def main():
    src, prop, name = sys.argv[1:4]
    opts = sys.argv[4:]
    tier = 'quick'
    if '--tier' in opts:
        tier = opts[opts.index('--tier') + 1]
    wt = '/tmp/sw_%s' % name
    sh(['git', '-C', '/repo', 'worktree', 'remove', '--force', wt])
    base = 'HEAD'
    prev_meta = os.path.join(VERIF, 'seeded', name, 'meta.json')
    if os.path.exists(prev_meta) and '--head' not in opts:
        # a kept change is re-evaluated on the tree it was written against
        base = json.load(open(prev_meta)).get('repo_head') or 'HEAD'
    rc, out = sh(['git', '-C', '/repo', 'worktree', 'add', '--detach', wt, base])
    if rc:
        raise SystemExit(out)
    meta = dict(name=name, property=prop, source=src,
                verif_commit=sh(['git', '-C', VERIF, 'describe', '--always', '--dirty'])[1].strip(), repo_head=sh(['git', '-C', '/repo', 'rev-parse', base])[1].strip())
    try:
        env = dict(os.environ, DEMO_REPO=wt, PYTHONHASHSEED='0')
        demo = os.path.join(src, 'demo.py')
        rc0, out0 = sh(['/venv/bin/python', demo], env=env, cwd=wt, timeout=600)
        meta['demo_clean_exit'] = rc0
        rc, out = sh(['git', '-C', wt, 'apply', os.path.abspath(os.path.join(src, 'patch.diff'))])
        if rc:
            raise SystemExit('patch does not apply: ' + out)
        rc1, out1 = sh(['/venv/bin/python', demo], env=env, cwd=wt, timeout=600)
        meta['demo_mutant_exit'] = rc1
        meta['demo_mutant_output'] = out1[-600:]
        if '--no-tests' not in opts:
            rct, outt = sh([os.path.join(VERIF, 'tools', 'baseline_off.sh'), '-n', '6'],
                           env=dict(os.environ, VERIF_REPO=wt), timeout=3000)
            meta['tests_exit'] = rct
            meta['tests_output'] = outt[-300:]
        t0 = time.time()
        checks = [prop] + [o for o in opts if o.startswith('C') and len(o) == 3]
        meta['checks'] = {}
        for cid in checks:
            rcc, outc = sh([os.path.join(VERIF, 'check'), cid, '--tier', tier, '--no-evidence'],
                           env=dict(os.environ, VERIF_REPO=wt), cwd=VERIF, timeout=7200)
            vio = [l for l in outc.splitlines() if l.startswith('violation ') or l.startswith('  detail')]
            meta['checks'][cid] = dict(exit=rcc, detected=rcc == 1, tier=tier, wall_s=round(time.time() - t0, 1),
                                       first_violation=' | '.join(vio[:2])[:1200],
                                       tail=outc[-400:] if rcc != 1 else '')
        ok = rc0 == 0 and rc1 != 0 and meta.get('tests_exit', 0) == 0
        meta['confirmed'] = ok
        print(json.dumps(meta, indent=1))
        if ok:
            dst = os.path.join(VERIF, 'seeded', name)
            os.makedirs(dst, exist_ok=True)
            for f in ('patch.diff', 'demo.py', 'notes.md'):
                if os.path.exists(os.path.join(src, f)) and \
                        os.path.abspath(src) != os.path.abspath(dst):
                    shutil.copy(os.path.join(src, f), os.path.join(dst, f))
            keep = dict(meta)
            prev = {}
            if os.path.exists(os.path.join(dst, 'meta.json')):
                prev = json.load(open(os.path.join(dst, 'meta.json')))
            hist = prev.get('history', [])
            if prev.get('checks'):
                hist.append(dict(verif_commit=prev.get('verif_commit'),
                                 detected={k: v['detected'] for k, v in prev['checks'].items()}))
            keep['history'] = hist
            if 'tests_exit' not in keep and 'tests_exit' in prev:
                keep['tests_exit'] = prev['tests_exit']
                keep['tests_output'] = prev.get('tests_output')
                keep['tests_note'] = 'test suite result carried over from the first evaluation of this patch'
            keep['needs_to_manifest'] = open(os.path.join(src, 'notes.md')).read()[:1500] \
                if os.path.exists(os.path.join(src, 'notes.md')) else ''
            keep['ran'] = ['demo.py on clean worktree (exit %d)' % rc0, 'git apply patch.diff; demo.py (exit %d)' % rc1,
                           'tools/baseline_off.sh -n 6 with VERIF_REPO=worktree (exit %s)' % meta.get('tests_exit'),
                           './check %s --tier %s with VERIF_REPO=worktree' % (' '.join(checks), tier)]
            json.dump(keep, open(os.path.join(dst, 'meta.json'), 'w'), indent=1)
    finally:
        sh(['git', '-C', '/repo', 'worktree', 'remove', '--force', wt])
        shutil.rmtree(wt, ignore_errors=True)
        shutil.rmtree(os.path.join(VERIF, 'replays'), ignore_errors=True)


if __name__ == '__main__':
    main()
