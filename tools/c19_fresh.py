"""fresh-interpreter reference for C19:  c19_fresh.py <item index>  -> JSON text on stdout"""
import json
import os
import sys
sys.path.insert(0, os.path.dirname(os.path.dirname(os.path.abspath(__file__))))
from checks import c19 as me          # noqa: E402
from simkit import core as _core      # noqa: E402
me.P, me.PP = _core.import_package()
me.register_harness()
me.CORPUS[:] = me.build_corpus()
print(json.dumps(me.call(int(sys.argv[1]))[0]))
