#!/bin/sh
# every check at the thorough tier, one after another; usage: tools/thorough_all.sh [jobs] [extra args e.g. --no-evidence]
cd "$(dirname "$0")/.."
J=${1:-16}; shift
for c in C20 C14 C13 C15 C18 C19; do
  echo "=== $c $(date +%T)"
  VERIF_JOBS=$J ./check $c --tier thorough "$@" 2>&1 | tail -40
  echo "=== $c exit=$?"
done
