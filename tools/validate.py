"""validate MANIFEST.json and evidence/*.json against the schemas (python3-vt has jsonschema)"""
import glob
import json
import sys
import jsonschema
ok = True
jsonschema.validate(json.load(open('/verif/MANIFEST.json')), json.load(open('/root/.vp/MANIFEST.schema.json')))
print('MANIFEST ok')
es = json.load(open('/root/.vp/EVIDENCE.schema.json'))
for p in sorted(glob.glob('/verif/evidence/*.json')):
    try:
        jsonschema.validate(json.load(open(p)), es)
        print(p, 'ok')
    except Exception as e:
        ok = False
        print(p, 'INVALID', str(e)[:300])
sys.exit(0 if ok else 1)
