"""Sensitivity self-test (not a MANIFEST command): break each property on purpose in a scratch
copy of /repo, point the check at the copy (VERIF_REPO) and expect a VIOLATION within the quick
budget. Writes /verif/sensitivity/results.json. The scratch copy lives under /tmp and is removed.

usage: /venv/bin/python tools/sensitivity.py [ID ...]
"""
import json
import os
import shutil
import subprocess
import sys
import tempfile
import time

VERIF = os.path.dirname(os.path.dirname(os.path.abspath(__file__)))
PP = 'prettyprinter/prettyprinter.py'
INIT = 'prettyprinter/__init__.py'
STD = 'prettyprinter/pretty_stdlib.py'

# (id, description, [(file, old, new), ...])
MUTANTS = {
 'C13': [
  ('end_visit_dropped', 'end_visit becomes a no-op',
   [(PP, "        self.visited.remove(id(value))", "        pass")]),
  ('visited_module_global', 'one module-level visited set reused by every call',
   [(PP, "            visited=set(),\n            max_seq_len=max_seq_len,", "            visited=_VISITED,\n            max_seq_len=max_seq_len,"),
    (PP, "def python_to_sdocs(", "_VISITED = set()\n\n\ndef python_to_sdocs("),
    (PP, "        self.visited.remove(id(value))", "        self.visited.discard(id(value))")]),
  ('marker_wrong_id', 'marker names id of the type',
   [(PP, "        type(value).__name__,\n        id(value)\n    )", "        type(value).__name__,\n        id(type(value))\n    )")]),
  ('tuples_not_checked', 'visited check skipped for tuples',
   [(PP, "    if ctx.is_visited(value):\n        return _pretty_recursion(value)", "    if not isinstance(value, tuple) and ctx.is_visited(value):\n        return _pretty_recursion(value)")]),
  ('end_visit_not_in_finally', 'end_visit only on the normal path (pre-fix shape)',
   [(PP, "    finally:\n        # Also on the way out with an exception, so that a later\n        # occurrence of the same object is not mistaken for a cycle.\n        ctx.end_visit(value)\n", "    except BaseException:\n        raise\n    else:\n        ctx.end_visit(value)\n"),
    (PP, "            visited=set(),\n            max_seq_len=max_seq_len,", "            visited=_VISITED,\n            max_seq_len=max_seq_len,"),
    (PP, "def python_to_sdocs(", "_VISITED = set()\n\n\ndef python_to_sdocs(")]),
 ],
 'C14': [
  ('except_narrowed', 'plain path catches only ValueError/TypeError',
   [(PP, "        else:\n            try:\n                doc = pretty_fn(value, ctx)\n            except Exception as e:", "        else:\n            try:\n                doc = pretty_fn(value, ctx)\n            except (ValueError, TypeError) as e:")]),
  ('fallback_str', 'fall-back uses str(value)',
   [(PP, "            except Exception as e:\n                _warn_about_bad_printer(pretty_fn, value, exc=e)\n                doc = repr(value)\n\n        if not (", "            except Exception as e:\n                _warn_about_bad_printer(pretty_fn, value, exc=e)\n                doc = str(value)\n\n        if not (")]),
  ('warning_dropped_tc', 'no warning on the trailing-comment path',
   [(PP, "            except Exception as e:\n                _warn_about_bad_printer(pretty_fn, value, exc=e)\n                doc = repr(value)\n        else:", "            except Exception as e:\n                doc = repr(value)\n        else:")]),
  ('tc_only_typeerror', 'pre-fix: other exceptions escape under a trailing comment',
   [(PP, "            except Exception as e:\n                _warn_about_bad_printer(pretty_fn, value, exc=e)\n                doc = repr(value)\n        else:", "        else:")]),
  ('type_check_removed', 'return-type validation removed',
   [(PP, "        if not (\n            isinstance(doc, str) or\n            isinstance(doc, Doc)\n        ):", "        if False:")]),
  ('end_visit_not_in_finally', 'visit not ended on exceptional exit (non-doc ValueError)',
   [(PP, "    finally:\n        # Also on the way out with an exception, so that a later\n        # occurrence of the same object is not mistaken for a cycle.\n        ctx.end_visit(value)\n", "    except BaseException:\n        raise\n    else:\n        ctx.end_visit(value)\n")]),
 ],
 'C15': [
  ('mro_reversed', 'supertype loop walks the MRO from the root',
   [(PP, "            for supertype in type.__mro__[1:]:", "            for supertype in reversed(type.__mro__[1:]):")]),
  ('key_from_name', 'deferred key built from __name__',
   [(PP, "    return type.__module__ + '.' + type.__qualname__", "    return type.__module__ + '.' + type.__name__")]),
  ('noregister_still_promotes', 'register_deferred=False still promotes (exact type)',
   [(PP, "                if register_deferred:\n                    # register_pretty drops the deferred entry", "                if True:\n                    # register_pretty drops the deferred entry")]),
  ('predicates_last_first', 'last registered predicate wins',
   [(PP, "    for predicate, fn in _PREDICATE_REGISTRY:", "    for predicate, fn in reversed(_PREDICATE_REGISTRY):")]),
  ('prefix_fastpath', 'pre-fix fast path: live registry answers before the deferred table',
   [(PP, "    if (\n        type in pretty_dispatch.registry and\n        get_deferred_key(type) not in _DEFERRED_DISPATCH_BY_NAME\n    ):\n        return True", "    if type in pretty_dispatch.registry:\n        return True")]),
  ('direct_keeps_deferred', 'direct registration keeps an older deferred entry',
   [(PP, "                _DEFERRED_DISPATCH_BY_NAME.pop(get_deferred_key(type), None)\n", "")]),
  ('superclass_answer_inverted_for_deferred', 'is_registered ignores check_deferred for supertypes',
   [(PP, "        if check_deferred:\n            # Check deferred printers for supertypes.", "        if True:\n            # Check deferred printers for supertypes.")]),
 ],
 'C18': [
  ('merge_or_default', 'kwargs[key] or default',
   [(INIT, "    return {key: kwargs[key] if kwargs[key] is not _UNSET_SENTINEL else default", "    return {key: (kwargs[key] if kwargs[key] is not _UNSET_SENTINEL else None) or default")]),
  ('pprint_end_first', 'pprint writes end before the text',
   [(INIT, "    default_render_to_stream(stream, sdocs)\n    if end:\n        stream.write(end)\n\n\ndef cpprint(", "    if end:\n        stream.write(end)\n    default_render_to_stream(stream, sdocs)\n\n\ndef cpprint(")]),
  ('set_ribbon_as_width', 'set_default_config stores ribbon_width under width',
   [(INIT, "        new_defaults['ribbon_width'] = ribbon_width", "        new_defaults['width'] = ribbon_width")]),
  ('stdout_captured_at_import', 'sys.stdout captured at import',
   [(INIT, "_UNSET_SENTINEL = UnsetSentinel()\n", "_UNSET_SENTINEL = UnsetSentinel()\n_STDOUT = sys.stdout\n"),
    (INIT, "        sys.stdout\n        if stream is _UNSET_SENTINEL\n        else stream\n    )\n\n    default_render_to_stream(stream, sdocs)", "        _STDOUT\n        if stream is _UNSET_SENTINEL\n        else stream\n    )\n\n    default_render_to_stream(stream, sdocs)")]),
  ('prettyprinter_class_ignores_depth', 'PrettyPrinter drops an explicit depth=0',
   [(INIT, "        self._kwargs = kwargs\n", "        self._kwargs = {k: v for k, v in kwargs.items() if v or k != 'depth'}\n")]),
  ('set_mutates_in_place_partial', 'set_default_config forgets sort_dict_keys',
   [(INIT, "        new_defaults['sort_dict_keys'] = sort_dict_keys", "        pass")]),
 ],
 'C19': [
  ('struct_cache_by_len', 'struct-sequence field-name cache keyed by field count',
   [(PP, "    cls = type(value)\n    if cls not in _cnamedtuple_fieldnames_by_class:", "    cls = type(value)\n    key = len(value)\n    if key not in _FIELDNAMES_BY_LEN:"),
    (PP, "        _cnamedtuple_fieldnames_by_class[cls] = (\n            resolve_cnamedtuple_fieldnames(value)\n        )\n\n    fieldnames = _cnamedtuple_fieldnames_by_class[cls]", "        _FIELDNAMES_BY_LEN[key] = (\n            resolve_cnamedtuple_fieldnames(value)\n        )\n\n    fieldnames = _FIELDNAMES_BY_LEN[key]"),
    (PP, "_cnamedtuple_fieldnames_by_class = WeakKeyDictionary()", "_cnamedtuple_fieldnames_by_class = WeakKeyDictionary()\n_FIELDNAMES_BY_LEN = {}")]),
  ('struct_failure_cached', 'pre-0483a8f: a field-name resolution failure is cached per class and names come from ast.parse(repr)',
   [(PP, "        _cnamedtuple_fieldnames_by_class[cls] = (\n            resolve_cnamedtuple_fieldnames(value)\n        )\n", "        try:\n            _cnamedtuple_fieldnames_by_class[cls] = resolve_cnamedtuple_fieldnames(value)\n        except Exception:\n            _cnamedtuple_fieldnames_by_class[cls] = ()\n"),
    (PP, "        if not fieldname.isidentifier():", "        if not fieldname.isidentifier() or '<' in text:")]),
  ('deque_rotated', 'deque printer rotates its argument',
   [(STD, "    kwargs = []\n    if value.maxlen is not None:", "    value.rotate(1)\n    kwargs = []\n    if value.maxlen is not None:")]),
  ('defaultdict_indexed', 'defaultdict printer indexes a missing key',
   [(STD, "    constructor = type(d)\n    return pretty_call_alt(\n        ctx,\n        constructor,\n        args=(d.default_factory, dict(d))", "    constructor = type(d)\n    d['__pp_probe__']\n    del d['__pp_probe__']\n    d['zz'] = d.pop(next(iter(d)))\n    return pretty_call_alt(\n        ctx,\n        constructor,\n        args=(d.default_factory, dict(d))")]),
  ('sortable_wrapper_id', 'pre-fix: incomparable keys ordered by id of a temporary',
   [(PP, "        return (str(type(self.value)), id(self.value))", "        return (str(type(self)), id(self))")]),
  ('dispatch_by_first_seen_subclass', 'lazy promotion registers the printer for the *instance* type too',
   [(PP, "                        register_pretty(supertype)(deferred_dispatch)\n", "                        register_pretty(supertype)(deferred_dispatch)\n                        _PROMOTED_FOR.append(type)\n"),
    (PP, "_DEFERRED_DISPATCH_BY_NAME = {}\n", "_DEFERRED_DISPATCH_BY_NAME = {}\n_PROMOTED_FOR = []\n"),
    (PP, "def pretty_python_value(value, ctx):\n    comment = None", "def pretty_python_value(value, ctx):\n    if len(_PROMOTED_FOR) > 2 and ctx.indent == 4:\n        ctx = ctx._replace(indent=3)\n    comment = None")]),
 ],
 'C20': [
  ('lock_removed', 'pre-fix: no lock around check/pop/register',
   [(PP, "    with _DEFERRED_DISPATCH_LOCK:\n        if check_deferred:", "    if True:\n        if check_deferred:")]),
  ('pop_before_register', 'pre-a55e300: deferred entry dropped before the new printer is live',
   [(PP, "                pretty_dispatch.register(type, partial(_run_pretty, fn))\n                # A later registration", "                _DEFERRED_DISPATCH_BY_NAME.pop(get_deferred_key(type), None)\n                pretty_dispatch.register(type, partial(_run_pretty, fn))\n                # A later registration")]),
  ('lock_only_on_exact', 'supertype promotion outside the lock',
   [(PP, "        if not check_superclasses:\n            return False\n\n        if check_deferred:\n            # Check deferred printers for supertypes.\n            for supertype in type.__mro__[1:]:", "        if not check_superclasses:\n            return False\n\n    if True:\n        if check_deferred:\n            # Check deferred printers for supertypes.\n            for supertype in type.__mro__[1:]:")]),
  ('visited_module_global', 'one module-level visited set shared by all threads',
   [(PP, "            visited=set(),\n            max_seq_len=max_seq_len,", "            visited=_VISITED,\n            max_seq_len=max_seq_len,"),
    (PP, "def python_to_sdocs(", "_VISITED = set()\n\n\ndef python_to_sdocs("),
    (PP, "        self.visited.remove(id(value))", "        self.visited.discard(id(value))")]),
  ('last_type_cache', 'module-level one-entry cache of the last dispatched type',
   [(PP, "def pretty_python_value(value, ctx):\n    comment = None", "_LAST = [None, None]\n\n\ndef pretty_python_value(value, ctx):\n    comment = None"),
    (PP, "    else:\n        doc = pretty_dispatch(\n            value,\n            ctx\n        )", "    else:\n        if _LAST[0] is not type(value):\n            _LAST[0] = type(value)\n            _LAST[1] = pretty_dispatch.dispatch(type(value))\n        doc = _LAST[1](\n            value,\n            ctx\n        )")]),
  ('lock_order_inversion', 'two locks taken in opposite orders on two paths',
   [(PP, "_DEFERRED_DISPATCH_LOCK = threading.RLock()\n", "_DEFERRED_DISPATCH_LOCK = threading.RLock()\n_CACHE_LOCK = threading.Lock()\n"),
    (PP, "    with _DEFERRED_DISPATCH_LOCK:\n        if check_deferred:", "    if type.__module__ == 'uuid':\n        _CACHE_LOCK.acquire()\n    with _DEFERRED_DISPATCH_LOCK:\n      try:\n        if type.__module__ != 'uuid' and get_deferred_key(type) in _DEFERRED_DISPATCH_BY_NAME:\n            with _CACHE_LOCK:\n                pass\n      finally:\n        if type.__module__ == 'uuid':\n            _CACHE_LOCK.release()\n    with _DEFERRED_DISPATCH_LOCK:\n        if check_deferred:")]),
 ],
}


def apply(root, edits):
    for rel, old, new in edits:
        p = os.path.join(root, rel)
        s = open(p).read()
        if old not in s:
            raise ValueError('mutant does not apply: %r not found in %s' % (old[:60], rel))
        open(p, 'w').write(s.replace(old, new, 1))


def main():
    ids = sys.argv[1:] or sorted(MUTANTS)
    outp = os.path.join(VERIF, 'sensitivity', 'results.json')
    os.makedirs(os.path.dirname(outp), exist_ok=True)
    results = json.load(open(outp)) if os.path.exists(outp) else {}
    for cid in ids:
        for name, desc, edits in MUTANTS[cid]:
            scratch = tempfile.mkdtemp(prefix='sens_')
            try:
                root = os.path.join(scratch, 'repo')
                shutil.copytree('/repo', root, ignore=shutil.ignore_patterns('.git', '__pycache__', 'docs', '*.png'))
                try:
                    apply(root, edits)
                except ValueError as e:
                    print('%s %-40s DOES NOT APPLY: %s' % (cid, name, e))
                    results['%s/%s' % (cid, name)] = dict(property=cid, mutant=name, description=desc, detected=None,
                                                          first=str(e))
                    continue
                subprocess.run(['/venv/bin/python', '-c', 'import sys; sys.path.insert(0, %r); import prettyprinter' % root],
                               check=True, cwd=scratch)
                env = dict(os.environ, VERIF_REPO=root)
                t0 = time.time()
                p = subprocess.run([os.path.join(VERIF, 'check'), cid, '--tier', 'quick', '--no-evidence'],
                                   env=env, stdout=subprocess.PIPE, stderr=subprocess.STDOUT, cwd=VERIF)
                out = p.stdout.decode(errors='replace')
                vio = [l for l in out.splitlines() if l.startswith('violation ')]
                results['%s/%s' % (cid, name)] = dict(
                    property=cid, mutant=name, description=desc, exit=p.returncode,
                    detected=p.returncode == 1, wall_s=round(time.time() - t0, 1),
                    first=vio[0][:300] if vio else out[-300:])
                print('%s %-40s exit=%d %s  %.0fs  %s' % (cid, name, p.returncode,
                                                          'DETECTED' if p.returncode == 1 else 'MISSED',
                                                          time.time() - t0, (vio[0][:140] if vio else '')))
                sys.stdout.flush()
            finally:
                shutil.rmtree(scratch, ignore_errors=True)
                shutil.rmtree(os.path.join(VERIF, 'replays'), ignore_errors=True)
    json.dump(results, open(outp, 'w'), indent=1, sort_keys=True)


if __name__ == '__main__':
    main()
