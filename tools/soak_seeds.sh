#!/bin/sh
# false-alarm soak: every quick check under several VERIF_SEED values; prints one line per run
# usage: tools/soak_seeds.sh <first> <last> [jobs]
cd "$(dirname "$0")/.."
for s in $(seq "$1" "$2"); do
  for c in C13 C14 C15 C18 C19 C20; do
    out=$(VERIF_SEED=$s VERIF_JOBS=${3:-8} ./check $c --tier quick --no-evidence 2>&1)
    rc=$?
    echo "seed=$s $c exit=$rc $(echo "$out" | grep -E '^runs=' | cut -c1-120)"
    [ $rc -ne 0 ] && echo "$out" | tail -20
  done
done
