#!/bin/sh
# re-run every kept seeded change against the current checks (quick tier, no test suite).
# A patch that still applies to /repo HEAD is evaluated there, otherwise on the commit it was written against.
cd "$(dirname "$0")/.."
for d in seeded/*/; do
  n=$(basename "$d"); p=${n%-*}
  if git -C /repo apply --check "$PWD/$d/patch.diff" 2>/dev/null; then opt=--head; else opt=; fi
  /venv/bin/python tools/seeded_eval.py "$PWD/$d" "$p" "$n" --no-tests $opt 2>&1 | /venv/bin/python -c "
import sys,json
t=sys.stdin.read()
try:
    m=json.loads(t[t.index('{'):]); print(m['name'],'base',m['repo_head'][:7],{k:(v['detected'],v['wall_s']) for k,v in m['checks'].items()})
except Exception as e: print('ERR','$n',t[-300:])
"
done
