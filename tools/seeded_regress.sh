#!/bin/sh
# re-run every kept seeded change against the current checks (quick tier, no test suite).
# A patch that still applies to /repo HEAD *and still breaks its demo there* is evaluated on HEAD,
# otherwise on the commit it was written against (a later repair may have made it benign).
cd "$(dirname "$0")/.."
show='import sys,json
t=sys.stdin.read()
try:
    m=json.loads(t[t.index("{"):]); print(m["name"],"base",m["repo_head"][:7],"demo",m["demo_clean_exit"],m["demo_mutant_exit"],{k:(v["detected"],v["wall_s"]) for k,v in m["checks"].items()})
    sys.exit(0 if m["confirmed"] else 3)
except Exception as e: print("ERR",t[-300:]); sys.exit(4)'
for d in ${@:-seeded/*/}; do
  n=$(basename "$d"); p=${n%-*}
  extra=$(/venv/bin/python -c "import json,sys; print(json.load(open('seeded/crosscheck.json')).get(sys.argv[1], ''))" "$n")
  if git -C /repo apply --check "$PWD/seeded/$n/patch.diff" 2>/dev/null; then
    /venv/bin/python tools/seeded_eval.py "$PWD/seeded/$n" "$p" "$n" --no-tests --head $extra 2>&1 | /venv/bin/python -c "$show" && continue
    echo "   $n: benign or not applicable on HEAD, re-evaluating on its recorded base"
  fi
  /venv/bin/python tools/seeded_eval.py "$PWD/seeded/$n" "$p" "$n" --no-tests $extra 2>&1 | /venv/bin/python -c "$show"
done
