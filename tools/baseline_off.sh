#!/bin/sh
# Runs the repository's pinned test suite with the verification guard OFF and compares the
# result with /root/.vp/BASELINE.json (all stable_pass tests must pass).
# usage: tools/baseline_off.sh [extra pytest args, e.g. -n 8]
unset PRETTYPRINTER_VERIF
OUT=$(mktemp /tmp/baseline.XXXXXX.xml)
REPO=${VERIF_REPO:-/repo}
cd "$REPO" && /venv/bin/python -m pytest -ra -q -p no:cacheprovider --timeout=900 \
    --continue-on-collection-errors --junitxml="$OUT" "$@" >/tmp/baseline_off.log 2>&1
/venv/bin/python - "$OUT" <<'PY'
import json, sys
import xml.etree.ElementTree as ET
base = json.load(open('/root/.vp/BASELINE.json'))
passed = set()
for tc in ET.parse(sys.argv[1]).getroot().iter('testcase'):
    bad = [c.tag for c in tc if c.tag in ('failure', 'error', 'skipped')]
    if not bad:
        passed.add('%s::%s' % (tc.get('classname'), tc.get('name')))
missing = [t for t in base['stable_pass'] if t not in passed]
print('baseline stable_pass=%d passed_now=%d missing=%d' % (len(base['stable_pass']), len(passed), len(missing)))
for m in missing:
    print('  NOT PASSING:', m)
sys.exit(1 if missing else 0)
PY
rc=$?
rm -f "$OUT"
exit $rc
