"""summary of seeded/*/meta.json: verdict at arrival (first recorded evaluation) and now, per round"""
import glob
import json
import os
VERIF = os.path.dirname(os.path.dirname(os.path.abspath(__file__)))
cross = json.load(open(os.path.join(VERIF, 'seeded', 'crosscheck.json')))
rounds = {}
rows = []
for p in sorted(glob.glob(os.path.join(VERIF, 'seeded', '*', 'meta.json'))):
    m = json.load(open(p))
    name = m['name']
    prop = m['property']
    hist = m.get('history') or []
    first = (hist[0]['detected'].get(prop) if hist else m['checks'][prop]['detected'])
    now_own = m['checks'][prop]['detected']
    now_cross = any(v['detected'] for k, v in m['checks'].items() if k != prop)
    if not now_cross and name in cross:
        # the latest evaluation may have run the own check only: look for a cross-check verdict in the history
        now_cross = any(h['detected'].get(cross[name]) for h in hist)
    letter = name.split('-')[1]
    rnd = (ord(letter) - ord('a')) // 2 + 1
    r = rounds.setdefault(rnd, dict(n=0, first=0, own=0, cross=0, none=0))
    r['n'] += 1
    r['first'] += bool(first)
    if now_own:
        r['own'] += 1
    elif now_cross:
        r['cross'] += 1
    else:
        r['none'] += 1
    rows.append((name, bool(first), now_own, now_cross, bool(m.get('disposition'))))
for rnd in sorted(rounds):
    print('round', rnd, rounds[rnd])
tot = {k: sum(r[k] for r in rounds.values()) for k in ('n', 'first', 'own', 'cross', 'none')}
print('total', tot)
print('not reported by any check:', [r[0] for r in rows if not r[2] and not r[3]])
print('reported by another property\'s check only:', [r[0] for r in rows if not r[2] and r[3]])
