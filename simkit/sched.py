"""Deterministic thread scheduler: real threads, one baton, sys.settrace yield points.

Exactly one simulated thread runs at any time. Every `line` event in a frame whose code
lives under <repo>/prettyprinter/ is a yield point; frames of functions that touch shared
module state (found by scanning the tree under check, see shared_codes()) additionally
yield at every bytecode when the run's granularity knob says so. At a yield point the
policy (seeded PRNG, or an explicit recorded segment list on replay) decides who runs next.

The schedule is recorded as segments [[tid, n], ...]: "thread tid passes n yield points".
Replaying a segment list is a pure function of the list and the code.
"""
import dis
import hashlib
import inspect
import functools
import sys
import threading
import types
import weakref
import _thread

from . import core

_real_Lock = threading.Lock
_real_RLock = threading.RLock
_real_allocate = _thread.allocate_lock
SIM = [None]
LOCK_STATS = {'created': 0, 'held': 0}     # 'held': locks currently owned (meaningful single-threaded)


class _SimLockBase:
    reentrant = False

    def __init__(self):
        self.owner = None
        self.count = 0
        LOCK_STATS['created'] += 1

    def acquire(self, blocking=True, timeout=-1):
        me = threading.get_ident()
        while self.owner is not None and not (self.reentrant and self.owner == me):
            if not blocking:
                return False
            sim = SIM[0]
            if sim is None:
                if self.owner == me:
                    raise RuntimeError('self-deadlock on non-reentrant lock outside simulation')
                raise RuntimeError('contended simulated lock outside simulation')
            sim.block_on(self)
        if self.count == 0:
            LOCK_STATS['held'] += 1
        self.owner = me
        self.count += 1
        return True

    def release(self):
        if self.owner is None:
            raise RuntimeError('release unlocked lock')
        if self.reentrant and self.owner != threading.get_ident():
            raise RuntimeError('cannot release un-acquired lock')
        self.count -= 1
        if self.count == 0:
            LOCK_STATS['held'] -= 1
            self.owner = None
            if SIM[0] is not None:
                SIM[0].unblock(self)

    def locked(self):
        return self.owner is not None

    def __enter__(self):
        self.acquire()
        return True

    def __exit__(self, *a):
        self.release()

    # RLock internals used by threading.Condition
    def _is_owned(self):
        return self.owner == threading.get_ident()


class SimLock(_SimLockBase):
    reentrant = False


class SimRLock(_SimLockBase):
    reentrant = True


def _from_package(depth=2):
    f = sys._getframe(depth)
    return f.f_code.co_filename.startswith(core.PKG)


def install_lock_seam():
    """Must run before the package is imported: locks created by package code become
    cooperative simulated locks; everybody else keeps real ones."""
    def lock_factory(*a, **k):
        return SimLock() if _from_package() else _real_Lock(*a, **k)

    def rlock_factory(*a, **k):
        return SimRLock() if _from_package() else _real_RLock(*a, **k)

    def alloc_factory(*a, **k):
        return SimLock() if _from_package() else _real_allocate(*a, **k)

    threading.Lock = lock_factory
    threading.RLock = rlock_factory
    _thread.allocate_lock = alloc_factory


# --------------------------------------------------------------------------- shared-state scan
def _codes(co):
    yield co
    for c in co.co_consts:
        if isinstance(c, types.CodeType):
            yield from _codes(c)


def shared_codes():
    """Code objects of package functions that read or write module-level mutable
    containers / singledispatch objects / locks. Computed from the tree under check."""
    mods = {n: m for n, m in list(sys.modules.items())
            if n.startswith('prettyprinter') and m is not None and
            (getattr(m, '__file__', None) or '').startswith(core.PKG)}
    shared = set()
    for n, m in mods.items():
        for k, v in vars(m).items():
            if k.startswith('__'):
                continue
            if isinstance(v, (dict, list, set, bytearray, weakref.WeakKeyDictionary,
                              weakref.WeakValueDictionary, _SimLockBase)) or \
                    (hasattr(v, 'registry') and hasattr(v, 'dispatch')) or \
                    type(v).__name__ in ('lock', 'RLock', 'deque', 'OrderedDict',
                                         'defaultdict', 'StringIO'):
                shared.add(k)
    out = {}
    for n, m in mods.items():
        for k, v in list(vars(m).items()):
            fns = []
            if inspect.isfunction(v):
                fns.append(v)
            elif inspect.isclass(v) and (getattr(v, '__module__', '') or '').startswith('prettyprinter'):
                for kk, vv in vars(v).items():
                    if inspect.isfunction(vv):
                        fns.append(vv)
            for f in fns:
                if not f.__code__.co_filename.startswith(core.PKG):
                    continue
                for co in _codes(f.__code__):
                    for ins in dis.get_instructions(co):
                        if ins.opname in ('LOAD_GLOBAL', 'STORE_GLOBAL', 'DELETE_GLOBAL') \
                                and ins.argval in shared:
                            out.setdefault(co, set()).add(ins.argval)
    for co in out:
        WRITE_LINES[co] = write_lines(co)
    return out, sorted(shared)


WRITE_LINES = {}     # code -> source lines that (may) mutate state: stores, deletes, mutating method calls
_MUTATORS = {'pop', 'append', 'clear', 'register', 'setdefault', 'update', 'insert', 'remove', 'add', 'discard',
             'popitem', 'extend', 'acquire', 'release', 'move_to_end', 'appendleft', 'popleft', 'sort', 'reverse'}


def write_lines(co):
    lines = set()
    for ins in dis.get_instructions(co):
        ln = ins.positions.lineno if ins.positions else None
        if ln is None:
            continue
        if ins.opname in ('STORE_SUBSCR', 'DELETE_SUBSCR', 'STORE_GLOBAL', 'DELETE_GLOBAL', 'STORE_ATTR',
                          'DELETE_ATTR') or \
                (ins.opname in ('LOAD_ATTR', 'LOAD_METHOD') and ins.argval in _MUTATORS):
            lines.add(ln)
    return lines


# --------------------------------------------------------------------------- scheduler
class _Park(BaseException):
    pass


class SimThread:
    def __init__(self, sched, tid, calls):
        self.sched, self.tid, self.calls = sched, tid, calls
        self.go = threading.Event()
        self.done = False
        self.waiting_on = None
        self.results = []
        self.shared_yields = 0
        self.site_counts = {}      # (function name, line) -> times this thread reached that shared-state site
        self.at_site = None
        self.strat_done = False
        self.in_call = False
        self.th = threading.Thread(target=self.body, daemon=True, name='sim-%d' % tid)

    def body(self):
        self.go.wait()
        s = self.sched
        s.by_ident[threading.get_ident()] = self
        pkg = core.PKG
        opcode_codes = s.opcode_codes
        yp = s.yield_point

        def local(frame, event, arg):
            if event == 'line':
                yp(self, frame, -1)
            elif event == 'opcode':
                yp(self, frame, frame.f_lasti)
            return local

        def glob(frame, event, arg):
            co = frame.f_code
            if co.co_filename.startswith(pkg):
                if co in opcode_codes:
                    frame.f_trace_opcodes = True
                return local
            return None

        for ci, fn in enumerate(self.calls):
            rec = {'tid': self.tid, 'call': ci, 'inv': s.stamp()}
            self.in_call = True
            sys.settrace(glob)
            try:
                try:
                    rec['out'] = ['ok', fn()]
                except Exception as e:
                    rec['out'] = ['exc', type(e).__name__, str(e)[:200]]
            finally:
                sys.settrace(None)
            self.in_call = False
            rec['ret'] = s.stamp()
            self.results.append(rec)
        s.finish(self)


class Scheduler:
    def __init__(self, spec, shared, wall_timeout=60.0):
        """spec: dict(policy=..., seed=..., p=..., opcode=bool, segments=[...], max_steps=int)"""
        import random
        self.spec = spec
        self.rng = random.Random(spec.get('seed', 0))
        self.policy = spec['policy']
        self.shared = shared                      # code -> names
        self.opcode_codes = set(shared) if spec.get('opcode') else set()
        self.threads = []
        self.by_ident = {}
        self.steps = 0
        self.evseq = 0
        self.max_steps = spec.get('max_steps', 10 ** 7)
        self.h = hashlib.blake2b(digest_size=8)
        self.segments = []
        self.switches = 0            # voluntary (pre-emptive) switches
        self.forced = 0
        self.lock_blocks = 0
        self.finished = threading.Event()
        self.aborted = None
        self.wall_timeout = wall_timeout
        self.parked = {}             # tid -> (code, lineno) where a thread is parked by pre-emption
        self.pairs = set()           # (parked func:line, running shared func)
        self.park_log = set()        # shared-state sites at which a thread was pre-empted
        self.probe_funcs = set(spec.get('probe_funcs') or ())
        self.site_hits = {}
        self._keycache = {}
        # explicit replay state
        self.seg_i = -1
        self.seg_left = 0
        # pct state
        self.prio = {}
        self.change_points = set()
        self.strat = None

    # -- construction
    def spawn(self, calls):
        t = SimThread(self, len(self.threads), calls)
        self.threads.append(t)
        return t

    def stamp(self):
        self.evseq += 1
        return self.evseq

    def runnable(self):
        return [t for t in self.threads if not t.done and t.waiting_on is None]

    # -- policy
    def _init_policy(self):
        n = len(self.threads)
        sp = self.spec
        if self.policy in ('pct', 'strat'):
            order = list(range(n))
            self.rng.shuffle(order)
            self.prio = {tid: n + 10 - i for i, tid in enumerate(order)}   # higher runs first
            self.low = 0
            if self.policy == 'pct':
                est = max(10, sp.get('est_steps', 5000))
                self.change_points = set(self.rng.randrange(est) for _ in range(sp.get('d', 2)))
            else:
                a = sp.get('strat_tid', 0) % n
                self.prio[a] = n + 100
                self.strat = (a, sp.get('strat_k', 1))

    def _top(self, cands):
        return max(cands, key=lambda t: self.prio[t.tid])

    def _explicit_next(self, cur):
        """advance to the next segment whose thread can run; returns that thread or None."""
        segs = self.spec['segments']
        while True:
            self.seg_i += 1
            if self.seg_i >= len(segs):
                self.seg_left = 1 << 60
                return None
            tid, n = segs[self.seg_i]
            if tid < len(self.threads) and n > 0:
                t = self.threads[tid]
                if not t.done and t.waiting_on is None:
                    self.seg_left = n
                    return t

    def choose(self, t, is_shared):
        """Called at a yield point of running thread t. Returns thread to switch to or None."""
        pol = self.policy
        if pol == 'explicit':
            if self.seg_left > 0:
                return None
            nxt = self._explicit_next(t)
            return nxt
        if pol == 'uniform':
            if self.rng.random() < self.spec['p']:
                r = [x for x in self.runnable() if x is not t]
                if r:
                    return r[self.rng.randrange(len(r))]
            return None
        if pol == 'biased':
            p = self.spec['p_shared'] if is_shared else self.spec['p']
            if self.rng.random() < p:
                r = [x for x in self.runnable() if x is not t]
                if r:
                    return r[self.rng.randrange(len(r))]
            return None
        if pol == 'pct':
            if self.steps in self.change_points:
                self.low -= 1
                self.prio[t.tid] = self.low
            top = self._top(self.runnable())
            return top if top is not t else None
        if pol == 'strat':
            a, k = self.strat
            site = self.spec.get('strat_site')
            if site is not None:
                hit = t.tid == a and is_shared and t.at_site == (site[0], site[1]) and \
                    t.site_counts.get(t.at_site) == site[2] and not t.strat_done
                if hit:
                    t.strat_done = True
            else:
                hit = t.tid == a and is_shared and t.shared_yields == k
            if hit:
                self.low -= 1
                self.prio[a] = self.low
            top = self._top(self.runnable())
            return top if top is not t else None
        raise core.HarnessError('unknown policy %r' % pol)

    def pick_forced(self, t):
        r = [x for x in self.runnable() if x is not t]
        if not r:
            return None
        pol = self.policy
        if pol == 'explicit':
            # honour the recorded order if possible
            nxt = self._explicit_next(t)
            if nxt is not None and nxt is not t:
                return nxt
            return r[0]
        if pol in ('pct', 'strat'):
            return self._top(r)
        return r[self.rng.randrange(len(r))]

    # -- baton
    def _switch(self, t, nxt):
        t.go.clear()
        nxt.go.set()
        t.go.wait()

    def _park_forever(self):
        threading.Event().wait()

    def abort(self, reason):
        self.aborted = reason
        self.finished.set()
        self._park_forever()

    def yield_point(self, t, frame, lasti):
        co = frame.f_code
        is_shared = co in self.shared
        if is_shared:
            t.shared_yields += 1
            if lasti < 0:
                t.at_site = (co.co_name, frame.f_lineno)
                t.site_counts[t.at_site] = t.site_counts.get(t.at_site, 0) + 1
        nxt = self.choose(t, is_shared)
        if nxt is not None and nxt is not t:
            self.switches += 1
            self.parked[t.tid] = (co.co_name, frame.f_lineno, is_shared)
            if is_shared or co.co_name in self.probe_funcs:
                self.park_log.add('%s:%d' % (co.co_name, frame.f_lineno))
            self._switch(t, nxt)
            self.parked.pop(t.tid, None)
        # pass the yield point
        self.steps += 1
        self.evseq += 1
        if self.steps > self.max_steps:
            self.abort('step_cap')
        key = (t.tid, co, frame.f_lineno, lasti)
        b = self._keycache.get(key)
        if b is None:
            b = ('%d:%s:%d:%d:%d;' % (t.tid, co.co_name, co.co_firstlineno,
                                      frame.f_lineno, lasti)).encode()
            self._keycache[key] = b
        self.h.update(b)
        if self.policy == 'explicit':
            self.seg_left -= 1
        segs = self.segments
        if segs and segs[-1][0] == t.tid:
            segs[-1][1] += 1
        else:
            segs.append([t.tid, 1])
        if is_shared and self.parked:
            for ptid, (pname, pline, pshared) in self.parked.items():
                if pshared:
                    self.pairs.add('%s:%d|%s' % (pname, pline, co.co_name))

    def block_on(self, lock):
        t = self.by_ident[threading.get_ident()]
        t.waiting_on = lock
        self.lock_blocks += 1
        nxt = self.pick_forced(t)
        if nxt is None:
            self.abort('deadlock')
        self.forced += 1
        self._switch(t, nxt)

    def unblock(self, lock):
        for t in self.threads:
            if t.waiting_on is lock:
                t.waiting_on = None

    def finish(self, t):
        t.done = True
        nxt = self.pick_forced(t)
        if nxt is None:
            if all(x.done for x in self.threads):
                self.finished.set()
                return
            self.aborted = 'deadlock'
            self.finished.set()
            return
        self.forced += 1
        nxt.go.set()

    def run(self):
        self._init_policy()
        SIM[0] = self
        for t in self.threads:
            t.th.start()
        if self.policy == 'explicit':
            first = self._explicit_next(None) or self.threads[0]
        elif self.policy in ('pct', 'strat'):
            first = self._top(self.threads)
        else:
            first = self.threads[self.rng.randrange(len(self.threads))]
        first.go.set()
        ok = self.finished.wait(self.wall_timeout)
        if not ok:
            raise core.HarnessError('scheduler wall-clock watchdog (%ss) at step %d' % (
                self.wall_timeout, self.steps))
        if not self.aborted:
            for t in self.threads:
                t.th.join(5)
        SIM[0] = None

    def digest(self):
        return self.h.hexdigest()
