"""simkit core: seed derivation, pristine-fork runner, batch driver, minimiser,
replay files, known findings, evidence writer.

Nothing here draws from a run PRNG or reads a clock inside a simulated run; wall time is
read only by the batch driver (budgets, runs/hour).
"""
import faulthandler
import hashlib
import json
import os
import random
import resource
import select
import signal
import subprocess
import sys
import time
import traceback
from collections import Counter
from concurrent.futures import ProcessPoolExecutor, as_completed
import multiprocessing

VERIF = os.path.dirname(os.path.dirname(os.path.abspath(__file__)))
REPO = os.path.realpath(os.environ.get('VERIF_REPO', '/repo'))
PKG = REPO + '/prettyprinter/'
PYTHON = sys.executable

EXIT_OK, EXIT_VIOLATION, EXIT_HARNESS = 0, 1, 2


class HarnessError(Exception):
    pass


# --------------------------------------------------------------------------- seeds
def derive_seed(master, prop, idx):
    h = hashlib.blake2b(('%d|%s|%d' % (master, prop, idx)).encode(), digest_size=8)
    return int.from_bytes(h.digest(), 'big') >> 1


def digest_of(obj):
    return hashlib.blake2b(
        json.dumps(obj, sort_keys=True, default=repr).encode(), digest_size=8
    ).hexdigest()


def tree_digest():
    """digest of the package sources being checked (recorded in replay files)."""
    h = hashlib.blake2b(digest_size=8)
    for root, _dirs, files in sorted(os.walk(PKG)):
        for f in sorted(files):
            if f.endswith('.py'):
                p = os.path.join(root, f)
                h.update(p[len(PKG):].encode())
                with open(p, 'rb') as fh:
                    h.update(fh.read())
    return h.hexdigest()


# --------------------------------------------------------------------------- package
def import_package():
    """Import prettyprinter from the tree under check (REPO), never from elsewhere."""
    if sys.path[0] != REPO:
        sys.path.insert(0, REPO)
    import prettyprinter  # noqa
    f = os.path.realpath(prettyprinter.__file__)
    if not f.startswith(PKG):
        raise HarnessError('prettyprinter imported from %s, expected under %s' % (f, PKG))
    return prettyprinter, sys.modules['prettyprinter.prettyprinter']


# --------------------------------------------------------------------------- fork
def in_fork(fn, timeout=60.0):
    """Run fn() in a forked child of this (pristine) process.

    Returns ('ok', value) | ('harness_error', text) | ('timeout', text).
    The child reports one JSON document on a pipe and _exits; nothing it did to
    process-global state survives.
    """
    r, w = os.pipe()
    sys.stdout.flush()
    sys.stderr.flush()
    pid = os.fork()
    if pid == 0:
        code = 0
        try:
            os.close(r)
            try:
                faulthandler.dump_traceback_later(timeout + 5, exit=True)
            except Exception:
                pass
            try:
                # a run-away print must hit MemoryError in the child, not take the machine down
                lim = int(os.environ.get('VERIF_CHILD_AS_GB', '4')) << 30
                resource.setrlimit(resource.RLIMIT_AS, (lim, lim))
            except Exception:
                pass
            try:
                out = {'ok': fn()}
            except BaseException:
                out = {'harness_error': traceback.format_exc()}
            data = json.dumps(out, default=repr).encode()
            off = 0
            while off < len(data):
                off += os.write(w, data[off:off + 65536])
        except BaseException:
            code = 3
        finally:
            os._exit(code)
    os.close(w)
    chunks = []
    deadline = time.monotonic() + timeout
    timed_out = False
    while True:
        left = deadline - time.monotonic()
        if left <= 0:
            timed_out = True
            break
        rl, _, _ = select.select([r], [], [], left)
        if not rl:
            timed_out = True
            break
        c = os.read(r, 1 << 16)
        if not c:
            break
        chunks.append(c)
    os.close(r)
    if timed_out:
        try:
            os.kill(pid, signal.SIGKILL)
        except ProcessLookupError:
            pass
    os.waitpid(pid, 0)
    if timed_out:
        return ('timeout', 'child exceeded %.0fs wall clock' % timeout)
    data = b''.join(chunks)
    if not data:
        return ('harness_error', 'child produced no result')
    try:
        out = json.loads(data)
    except ValueError:
        return ('harness_error', 'child produced unparsable result: %r' % data[:200])
    if 'harness_error' in out:
        return ('harness_error', out['harness_error'])
    return ('ok', out['ok'])


# --------------------------------------------------------------------------- batch driver
class Stats:
    """Mergeable per-batch statistics."""

    def __init__(self):
        self.evaluations = 0
        self.steps = 0
        self.counters = Counter()
        self.digests = set()
        self.nontrivial = set()
        self.violations = []       # dicts: idx, seed, spec, result
        self.harness_errors = []
        self.samples = []
        self.timeouts = 0
        self.sets = {}             # name -> set of strings (union over runs), e.g. interleaving pairs
        self.records = {}          # idx -> per-run record (only with VERIF_RECORD=1: determinism self-test)

    def add_run(self, idx, seed, spec, res, check):
        self.evaluations += 1
        self.steps += int(res.get('steps', 0))
        if os.environ.get('VERIF_RECORD'):
            self.records[idx] = [res.get('digest'), res.get('class'), res.get('steps'),
                                 digest_of(res.get('counters')), digest_of(res.get('sample'))]
        for k, v in (res.get('counters') or {}).items():
            self.counters[k] += v
        for k, vals in (res.get('sets') or {}).items():
            self.sets.setdefault(k, set()).update(vals)
        d = res.get('digest') or digest_of(spec)
        self.digests.add(d)
        if res.get('nontrivial'):
            self.nontrivial.add(d)
        rspec = res.pop('replay_spec', None)
        if res.get('class'):
            if len(self.violations) < 8:
                self.violations.append(dict(idx=idx, seed=seed, spec=rspec or spec,
                                            orig_spec=spec, result=res))
            self.counters['violating_runs'] += 1
        if len(self.samples) < 2 and res.get('nontrivial'):
            self.samples.append(dict(idx=idx, seed=seed, spec=spec,
                                     outcome=res.get('sample')))

    def merge(self, o):
        self.evaluations += o.evaluations
        self.steps += o.steps
        self.counters.update(o.counters)
        self.digests |= o.digests
        self.nontrivial |= o.nontrivial
        for v in o.violations:
            if len(self.violations) < 40:
                self.violations.append(v)
        self.harness_errors.extend(o.harness_errors[:5])
        for s in o.samples:
            if len(self.samples) < 6:
                self.samples.append(s)
        self.timeouts += o.timeouts
        self.records.update(o.records)
        for k, vals in o.sets.items():
            self.sets.setdefault(k, set()).update(vals)


_CHECK = None   # set in the pristine main process before the pool forks
_STOP = None    # shared flag: a violation was found, remaining runs are skipped


def _work_chunk(args):
    tier, master, idxs, stop_at = args
    check = _CHECK
    st = Stats()
    for idx in idxs:
        if stop_at and time.time() > stop_at:
            break
        if _STOP is not None and _STOP.value >= 3:
            break
        seed = derive_seed(master, check.ID, idx)
        try:
            spec = check.generate(random.Random(seed), idx, tier)
        except Exception:
            st.harness_errors.append('generate idx=%d: %s' % (idx, traceback.format_exc()))
            continue
        if spec is None:
            continue
        kind, res = check.run(spec)
        if kind == 'timeout':
            res2 = check.on_timeout(spec)
            if res2 is None:
                st.harness_errors.append('idx=%d seed=%d: %s' % (idx, seed, res))
                st.timeouts += 1
                continue
            res = res2
        elif kind != 'ok':
            st.harness_errors.append('idx=%d seed=%d: %s' % (idx, seed, res))
            continue
        st.add_run(idx, seed, spec, res, check)
        if res.get('class') and _STOP is not None:
            with _STOP.get_lock():
                _STOP.value += 1
    return st


def run_batch(check, tier, master, n_runs, budget_s, jobs, start_idx=0):
    """Drive n_runs seeded runs over a fork pool. The caller has already run
    check.setup() in this process, which must stay pristine (never print)."""
    global _CHECK, _STOP
    _CHECK = check
    _STOP = multiprocessing.get_context('fork').Value('i', 0)
    t0 = time.time()
    stop_at = t0 + budget_s if budget_s else None
    chunk = max(1, min(check.CHUNK, n_runs // (jobs * 4) or 1))
    tasks = []
    i = start_idx
    while i < start_idx + n_runs:
        tasks.append((tier, master, list(range(i, min(i + chunk, start_idx + n_runs))), stop_at))
        i += chunk
    total = Stats()
    ctx = multiprocessing.get_context('fork')
    with ProcessPoolExecutor(max_workers=jobs, mp_context=ctx) as ex:
        futs = [ex.submit(_work_chunk, t) for t in tasks]
        for f in as_completed(futs):
            total.merge(f.result())
    total.wall = time.time() - t0
    return total


# --------------------------------------------------------------------------- minimisation
def ddmin_list(items, test, budget):
    """Classic ddmin on a list; test(candidate_list) -> True if still failing."""
    n = 2
    items = list(items)
    while len(items) >= 1 and budget[0] > 0:
        if len(items) == 1:
            budget[0] -= 1
            if test([]):
                items = []
            break
        size = max(1, len(items) // n)
        chunks = [items[i:i + size] for i in range(0, len(items), size)]
        reduced = False
        for ci in range(len(chunks)):
            if budget[0] <= 0:
                break
            cand = [x for cj, c in enumerate(chunks) if cj != ci for x in c]
            budget[0] -= 1
            if test(cand):
                items = cand
                n = max(n - 1, 2)
                reduced = True
                break
        if not reduced:
            if size == 1:
                break
            n = min(len(items), n * 2)
    return items


def minimise(check, spec, vclass, max_tests=400, wall_s=120):
    """Shrink a failing spec while the same violation class recurs. Uses forks of the
    pristine main process. Returns (spec, result, tests_used)."""
    budget = [max_tests]
    t_end = time.time() + wall_s
    best = [spec, None]

    def fails(cand):
        if time.time() > t_end:
            budget[0] = 0
            return False
        try:
            cand = check.normalise(cand)
        except Exception:
            return False
        if cand is None:
            return False
        kind, res = check.run(cand)
        if kind == 'timeout':
            res = check.on_timeout(cand)
            if res is None:
                return False
        elif kind != 'ok':
            return False
        if res.get('class') == vclass:
            res.pop('replay_spec', None)
            best[0], best[1] = cand, res
            return True
        return False

    for _round in range(3):
        before = digest_of(best[0])
        for shrinker in check.shrinkers(best[0]):
            # shrinker: ('list', getter, setter) or ('alts', generator_of_candidates)
            if budget[0] <= 0:
                break
            if shrinker[0] == 'prefix':
                _, get, put = shrinker
                cur = list(get(best[0]))
                lo, hi = 0, len(cur)       # smallest failing prefix length in (lo, hi]
                while lo < hi and budget[0] > 0:
                    mid = (lo + hi) // 2
                    budget[0] -= 1
                    if fails(put(best[0], cur[:mid])):
                        hi = mid
                    else:
                        lo = mid + 1
            elif shrinker[0] == 'list':
                _, get, put = shrinker
                cur = get(best[0])
                ddmin_list(cur, lambda c: fails(put(best[0], c)), budget)
            else:
                for cand in shrinker[1](best[0]):
                    if budget[0] <= 0:
                        break
                    budget[0] -= 1
                    fails(cand)
        if digest_of(best[0]) == before:
            break
    if best[1] is None:
        kind, res = check.run(best[0])
        best[1] = res if kind == 'ok' else None
    return best[0], best[1], max_tests - budget[0]


# --------------------------------------------------------------------------- replay / findings
def write_replay(check, seed, spec, res, original=None):
    d = os.path.join(VERIF, 'replays', check.ID)
    os.makedirs(d, exist_ok=True)
    path = os.path.join(d, '%d-%s.json' % (seed, res['class']))
    doc = dict(
        property=check.ID, seed=seed, violation_class=res['class'],
        signature=res.get('signature'), detail=res.get('detail'),
        spec=spec, python=sys.version.split()[0],
        pythonhashseed=os.environ.get('PYTHONHASHSEED'),
        tree_digest=tree_digest(), repo=REPO,
    )
    if original is not None:
        doc['unminimised_spec'] = original
    with open(path, 'w') as f:
        json.dump(doc, f, indent=1, default=repr)
    return path


def load_known_findings(prop):
    p = os.path.join(VERIF, 'known_findings.json')
    if not os.path.exists(p):
        return []
    with open(p) as f:
        doc = json.load(f)
    return [e for e in doc.get('findings', [])
            if e.get('property') == prop and e.get('status') == 'open']


def matches_finding(entry, res):
    m = entry.get('match', {})
    if 'class' in m and m['class'] != res.get('class'):
        return False
    if 'signature' in m and m['signature'] != res.get('signature'):
        return False
    return bool(m)


def replay_in_fresh_process(check_id, path):
    """Re-run a replay file in a fresh interpreter; returns the exit code."""
    cli = os.path.join(VERIF, 'simkit', 'cli.py')
    env = dict(os.environ)
    p = subprocess.run([PYTHON, cli, check_id, '--replay', path], env=env,
                       stdout=subprocess.PIPE, stderr=subprocess.STDOUT, timeout=600)
    return p.returncode, p.stdout.decode(errors='replace')


# --------------------------------------------------------------------------- evidence
def write_evidence(check, tier, master, st, violations, extra=None):
    d = os.path.join(VERIF, 'evidence')
    os.makedirs(d, exist_ok=True)
    wall = getattr(st, 'wall', 0.0) or 0.0
    cov = dict(
        evaluations=st.evaluations,
        distinct_nontrivial=len(st.nontrivial),
        distinct_runs=len(st.digests),
        rule=check.RULE,
        samples=st.samples[:4],
        simulated_steps=st.steps,
        runs_per_hour=int(st.evaluations / wall * 3600) if wall > 0 else 0,
        counters=dict(sorted(st.counters.items())),
        real_components=check.REAL,
        stub_components=check.STUBS,
        harness_errors=len(st.harness_errors),
        distinct_sets={k: len(v) for k, v in sorted(st.sets.items())},
        exhaustive=False,
    )
    if extra:
        cov.update(extra)
    doc = dict(
        property_id=check.ID, tier=tier, seed=master, level=check.LEVEL,
        coverage=cov, assumptions=check.ASSUMPTIONS, wall_s=round(wall, 2),
        violations=violations,
    )
    path = os.path.join(d, check.ID + '.json')
    tmp = path + '.tmp'
    with open(tmp, 'w') as f:
        json.dump(doc, f, indent=1, default=repr)
    os.replace(tmp, path)
    if tier == 'thorough':
        # keep a copy that later quick runs do not overwrite
        os.makedirs(os.path.join(d, 'thorough'), exist_ok=True)
        with open(os.path.join(d, 'thorough', check.ID + '.json'), 'w') as f:
            json.dump(doc, f, indent=1, default=repr)
    return path
