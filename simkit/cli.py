"""Command line driver:  check <ID> [--tier quick|thorough] [--replay FILE] [--runs N]

Exit 0: property held on everything explored (KNOWN-FINDING lines may be printed).
Exit 1: a violation not listed in known_findings.json; prints
        VIOLATION property=<id> replay=<path>
Exit 2: harness error (never counts as a pass, never prints VIOLATION).
"""
import argparse
import importlib
import json
import os
import sys
import time

if os.environ.get('PYTHONHASHSEED') != '0' and not os.environ.get('VERIF_NO_REEXEC'):
    os.environ['PYTHONHASHSEED'] = '0'
    os.execv(sys.executable, [sys.executable] + sys.argv)

HERE = os.path.dirname(os.path.abspath(__file__))
sys.path.insert(0, os.path.dirname(HERE))

from simkit import core  # noqa: E402


def load_check(cid):
    return importlib.import_module('checks.' + cid.lower())


def main():
    ap = argparse.ArgumentParser()
    ap.add_argument('id')
    ap.add_argument('--tier', default=os.environ.get('VERIF_TIER', 'quick'),
                    choices=['quick', 'thorough'])
    ap.add_argument('--replay')
    ap.add_argument('--runs', type=int, default=int(os.environ.get('VERIF_RUNS', '0')))
    ap.add_argument('--start', type=int, default=0)
    ap.add_argument('--jobs', type=int,
                    default=int(os.environ.get('VERIF_JOBS', '0')) or min(16, os.cpu_count() or 1))
    ap.add_argument('--no-evidence', action='store_true')
    ap.add_argument('--no-minimise', action='store_true')
    ap.add_argument('--dump', help='write per-run records to this file (needs VERIF_RECORD=1; self-test)')
    a = ap.parse_args()
    master = int(os.environ.get('VERIF_SEED', '0') or 0)
    print('check=%s tier=%s VERIF_SEED=%d repo=%s' % (a.id, a.tier, master, core.REPO))
    sys.stdout.flush()
    try:
        check = load_check(a.id)
        check.setup()
    except Exception:
        import traceback
        sys.stderr.write('HARNESS-ERROR during setup:\n' + traceback.format_exc())
        return core.EXIT_HARNESS

    if a.replay:
        with open(a.replay) as f:
            doc = json.load(f)
        kind, res = check.run(doc['spec'])
        if kind == 'timeout':
            res = check.on_timeout(doc['spec'])
            kind = 'ok' if res is not None else 'timeout'
        if kind != 'ok':
            sys.stderr.write('HARNESS-ERROR in replay: %s\n' % (res,))
            return core.EXIT_HARNESS
        print('replay result: class=%s signature=%s' % (res.get('class'), res.get('signature')))
        print('detail: %s' % json.dumps(res.get('detail'), default=repr)[:4000])
        if res.get('class'):
            same = res.get('class') == doc.get('violation_class')
            print('reproduced=%s (recorded class %s)' % (same, doc.get('violation_class')))
            print('VIOLATION property=%s replay=%s' % (check.ID, a.replay))
            return core.EXIT_VIOLATION
        print('not reproduced on this tree')
        return core.EXIT_OK

    n_runs = a.runs or check.TIERS[a.tier]['runs']
    budget = float(os.environ.get('VERIF_BUDGET_S', '0') or 0) or check.TIERS[a.tier]['budget_s']
    t0 = time.time()
    try:
        pre = check.pre_batch(a.tier) if hasattr(check, 'pre_batch') else None
        st = core.run_batch(check, a.tier, master, n_runs, budget, a.jobs, start_idx=a.start)
    except Exception:
        import traceback
        sys.stderr.write('HARNESS-ERROR during batch:\n' + traceback.format_exc())
        return core.EXIT_HARNESS
    if a.dump:
        with open(a.dump, 'w') as f:
            json.dump({str(k): v for k, v in sorted(st.records.items())}, f)

    # ---- violations: minimise, write replay, verify replay, match known findings
    new_violations = 0
    known_hits = {}
    seen_sigs = set()
    findings = core.load_known_findings(check.ID)
    st.violations.sort(key=lambda v: v['idx'])
    for v in st.violations:
        res = v['result']
        key = (res['class'], res.get('signature'))
        if key in seen_sigs:
            continue
        seen_sigs.add(key)
        spec, mres = v['spec'], res
        if not a.no_minimise:
            mspec, mres2, used = core.minimise(check, v['spec'], res['class'])
            if mres2 is not None and mres2.get('class') == res['class']:
                spec, mres = mspec, mres2
        key2 = (mres['class'], mres.get('signature'))
        hit = [e for e in findings if core.matches_finding(e, mres)]
        if hit:
            known_hits[hit[0]['id']] = hit[0]
            continue
        if key2 != key and key2 in seen_sigs:
            continue
        seen_sigs.add(key2)
        path = core.write_replay(check, v['seed'], spec, mres, original=v.get('orig_spec'))
        rc, out = core.replay_in_fresh_process(check.ID, path)
        print('violation idx=%d seed=%d class=%s signature=%s' % (
            v['idx'], v['seed'], mres['class'], mres.get('signature')))
        print('  detail: %s' % json.dumps(mres.get('detail'), default=repr)[:3000])
        print('  replay in fresh process: exit=%d (%s)' % (
            rc, 'reproduced' if rc == 1 else 'NOT reproduced'))
        print('VIOLATION property=%s replay=%s' % (check.ID, path))
        new_violations += 1
        if new_violations >= 5:
            break
    for e in known_hits.values():
        print('KNOWN-FINDING: property=%s %s' % (check.ID, e['what']))

    st.wall = time.time() - t0
    extra = check.extra_evidence(st) if hasattr(check, 'extra_evidence') else {}
    if pre:
        extra = dict(extra or {}, **pre)
    extra = dict(extra or {}, known_findings_hit=sorted(known_hits),
                 runs_requested=n_runs, jobs=a.jobs)
    if not a.no_evidence:
        core.write_evidence(check, a.tier, master, st, new_violations, extra)
    print('runs=%d distinct=%d nontrivial=%d steps=%d violations(new)=%d known=%d '
          'harness_errors=%d wall=%.1fs' % (
              st.evaluations, len(st.digests), len(st.nontrivial), st.steps,
              new_violations, len(known_hits), len(st.harness_errors), st.wall))
    for k, vv in sorted(st.counters.items()):
        print('  %s=%d' % (k, vv))
    if st.harness_errors:
        sys.stderr.write('HARNESS-ERROR (%d):\n%s\n' % (
            len(st.harness_errors), '\n'.join(st.harness_errors[:3])[:4000]))
        if not new_violations:
            return core.EXIT_HARNESS
    if st.evaluations == 0:
        sys.stderr.write('HARNESS-ERROR: no runs executed\n')
        return core.EXIT_HARNESS
    return core.EXIT_VIOLATION if new_violations else core.EXIT_OK


if __name__ == '__main__':
    sys.exit(main())
