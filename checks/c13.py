"""C13 - cycles are cut exactly at back-references; shared substructure prints in full;
printing leaves no residue.

A stateful machine over a mutable object graph the harness owns (list / dict / tuple-holding-
a-list / Box with a registered printer). Operations: new node, add edge, delete edge, print
any root, print aborted by KeyboardInterrupt inside the k-th Box printer call, clear dispatch
cache. After every print the text is parsed and compared node by node with a DFS reference
that depends on the current graph only - any residue of an earlier (or aborted) print shows.
"""
import ast
import collections
import re
import sys
import types
import warnings

from simkit import core

ID = 'C13'
LEVEL = 'exploration'
RUN_TIMEOUT = 25.0
CHUNK = 100
TIERS = {'quick': dict(runs=60000, budget_s=240), 'thorough': dict(runs=2500000, budget_s=1500)}
KINDS = ['list', 'dict', 'tuple', 'box']
# bundled container printers that take part in cycle detection too (seeded histories only)
MORE_KINDS = ['pbox', 'pbox', 'deque', 'odict', 'ns', 'mylist', 'mydict', 'ddict', 'ntuple', 'chainmap', 'chainmap_over']
NTL = collections.namedtuple('NTL', 'items tag')
RULE = ('run index < K enumerates ALL graphs with <= 3 nodes over the node kinds list / dict / tuple-holding-a-list / '
        'Box and every subset of the n*n possible edges (self loops included); each is printed from every root, '
        're-printed in another order, and (if it has a Box) printed again after an aborted print. Thorough adds all '
        '4-node graphs over list/dict. Further indices are seeded histories of 4-25 operations {new node, add edge, '
        'delete edge, print root with settings, aborted print, clear dispatch cache} on <= 6 nodes. distinct = '
        'distinct operation list; non-trivial = distinct AND at least two prints happened in the same process '
        '(so residue of an earlier or aborted print would show).')
REAL = ['prettyprinter/* (tree under check)']
STUBS = ['harness Box class and its printer (raises KeyboardInterrupt on demand)', 'GraphModel DFS reference']
ASSUMPTIONS = ['graphs reached: all rooted graphs with <= 3 nodes over 4 node kinds exhaustively (thorough: plus 4 '
               'nodes over list/dict), larger ones (<= 6 nodes) by seeded histories; prints whose expected '
               'output exceeds 5000 nodes are skipped',
               'a print that does not return within 25 s (then 75 s on a confirming re-run) counts as '
               'non-termination']
MAX_EXPECT = 5000
MARK = re.compile(r'<Recursion on (\w+) with id=(\d+)>')

P = PP = None
ABORT = {'at': None, 'n': 0, 'rereg': None, 'nondoc': None}


class Box:
    def __init__(self):
        self.kids = []

    def __repr__(self):
        return 'BoxRepr'


class PBox:
    """like Box, but its printer is registered through a predicate (the fall-back dispatch path)"""

    def __init__(self):
        self.kids = []

    def __repr__(self):
        return 'PBoxRepr'


class _NotPBox:
    pass


def setup():
    global P, PP
    P, PP = core.import_package()

    @P.register_pretty(predicate=lambda v: type(v) is PBox)
    def ppbox(v, ctx):
        ABORT['n'] += 1
        if ABORT['nondoc'] is not None and ABORT['n'] == ABORT['nondoc']:
            return None
        return P.pretty_call(ctx, PBox, *v.kids)

    @P.register_pretty(Box)
    def pbox(v, ctx):
        ABORT['n'] += 1
        if ABORT['at'] is not None and ABORT['n'] == ABORT['at']:
            raise KeyboardInterrupt()
        if ABORT['rereg'] is not None and ABORT['n'] == ABORT['rereg']:
            _reregister_equivalent_printers()
        if ABORT['nondoc'] is not None and ABORT['n'] == ABORT['nondoc']:
            return None
        return P.pretty_call(ctx, Box, *v.kids)


def _reregister_equivalent_printers():
    """what a lazily imported plug-in does from inside a printer: registers printers for further types.
    Here: functools.wraps copies of the printers list/dict/tuple already have - behaviour preserving."""
    import functools
    for t in (list, dict, tuple):
        entry = PP.pretty_dispatch.registry.get(t)
        fn = getattr(entry, 'args', (None,))[0] if isinstance(entry, functools.partial) else None
        if fn is None:
            continue

        def make(fn):
            @functools.wraps(fn)
            def same(value, ctx, *a, **kw):
                return fn(value, ctx, *a, **kw)
            return same
        P.register_pretty(t)(make(fn))


# ------------------------------------------------------------------ enumeration of small graphs
def _enum_sizes(tier):
    # (n nodes, kinds alphabet)
    sizes = [(1, KINDS), (2, KINDS), (3, KINDS)]
    if tier == 'thorough':
        sizes.append((4, ['list', 'dict']))
    return sizes


def enum_count(tier):
    return sum((len(ks) ** n) * (2 ** (n * n)) for n, ks in _enum_sizes(tier))


def _enum_graph(idx, tier):
    for n, ks in _enum_sizes(tier):
        total = (len(ks) ** n) * (2 ** (n * n))
        if idx < total:
            kinds = []
            for _ in range(n):
                kinds.append(ks[idx % len(ks)])
                idx //= len(ks)
            edges = [(i, j) for i in range(n) for j in range(n) if (idx >> (i * n + j)) & 1]
            return kinds, edges
        idx -= total
    return None


def generate(rng, idx, tier):
    g = _enum_graph(idx, tier)
    if g is not None:
        kinds, edges = g
        wrap = (idx // 3) % 4      # 0,1: plain; 2: every edge under comment(); 3: under trailing_comment()
        ops = [['new', k] for k in kinds] + [
            ['edge', p, c] + ([] if wrap < 2 else ['comment' if wrap == 2 else 'tcomment', 'note %d %d' % (p, c)])
            for p, c in edges]
        w = [10, 30, 79][idx % 3]
        n = len(kinds)
        # every node as root, then again in another order (residue), then once more after an abort
        ops += [['print', r, {'width': w}] for r in range(n)]
        ops += [['print', r, {'width': 79, 'depth': 100 if idx % 2 else None}] for r in reversed(range(n))]
        if 'box' in kinds:
            ops += [['abort', kinds.index('box'), 1 + idx % 2]]
            ops += [['print', r, {'width': w}] for r in range(n)]
        return dict(ops=ops, enumerated=True)
    ops = []
    n = 0
    maxn = rng.choice([3, 4, 5, 6])
    wk = dict(fan=rng.choice([0, 0, 1]), new=2, edge=rng.choice([2, 3, 5]), dele=rng.choice([0, 1]), prt=rng.choice([2, 3]),
              abort=rng.choice([0, 1, 2]), cc=rng.choice([0, 1]))
    bag = [k for k, c in sorted(wk.items()) for _ in range(c)]
    p_wrap = rng.choice([0.0, 0.0, 0.15, 0.4])
    kinds_w = rng.choice([KINDS, KINDS + ['box'], ['list', 'dict'], ['tuple', 'box', 'list'],
                          KINDS + MORE_KINDS, MORE_KINDS + ['list'], MORE_KINDS])
    for _ in range(rng.randrange(4, 26)):
        k = rng.choice(bag)
        if k == 'new':
            if n < maxn:
                ops.append(['new', rng.choice(kinds_w)])
                n += 1
        elif n == 0:
            continue
        elif k == 'edge':
            c = rng.randrange(n) if rng.random() < 0.75 else 'leaf'
            op = ['edge', rng.randrange(n), c]
            if rng.random() < p_wrap:
                # the child hangs under a comment()/trailing_comment() wrapper: transparent for the graph
                op.append(rng.choice(['comment', 'comment', 'tcomment']))
                op.append(rng.choice(['note', 'a considerably longer note that will not fit on one short line at all',
                                      'back reference']))
            ops.append(op)
        elif k == 'fan':
            # enough leaves to cross the printer's long-sequence shortcut (> 50 elements)
            ops.append(['fan', rng.randrange(n), rng.choice([52, 60])])
        elif k == 'dele':
            ops.append(['del', rng.randrange(n), rng.randrange(4)])
        elif k == 'prt':
            ops.append(['print', rng.randrange(n), {'width': rng.choice([10, 30, 79]), 'indent': rng.choice([4, 4, 2]),
                                                    'sort_dict_keys': rng.random() < 0.2,
                                                    # a finite depth that can never bind for <= 6 nodes: the finite-depth code path
                                                    'depth': rng.choice([None, None, 64, 100])}])
            if set(kinds_w) <= set(KINDS) and rng.random() < 0.3:
                # plain graphs only: a sequence limit that really cuts (the cut-off tail is not printed at all)
                ops[-1][2]['max_seq_len'] = rng.choice([2, 3])
                ops[-1][2]['sort_dict_keys'] = False
        elif k == 'abort' and rng.random() < 0.3:
            # a print that fails inside the bundled printers: max_seq_len=None (documented as 'no truncation')
            # makes them raise, or a Box printer returns None so the enclosing printer sees a ValueError
            ops.append(['failprint', rng.randrange(n), rng.choice(['max_seq_len_none', 'nondoc', 'deep', 'deep']),
                        rng.randrange(1, 3)])
        elif k == 'abort':
            if rng.random() < 0.3:
                # a print during which a Box printer re-registers equivalent printers for list/dict/tuple
                ops.append(['print', rng.randrange(n), {'width': rng.choice([10, 30, 79])}, rng.randrange(1, 4)])
            else:
                ops.append(['abort', rng.randrange(n), rng.randrange(1, 4)])
        else:
            ops.append(['cc'])
    if n:
        ops.append(['print', rng.randrange(n), {'width': 79}])
    return dict(ops=ops, enumerated=False)


# ------------------------------------------------------------------ reference model
WRAPPED = {}     # id(comment wrapper object) -> the child it wraps (harness-owned; per run)


def _leaf(n):
    """leaves are unique by their number; every fifth kind of them has an unusual shape"""
    k = n % 10
    if k == 3:
        return 'leaf %d: ' % n + 'a string long enough to be split over several lines ' * 3
    if k == 5:
        return ('tab\t nul\x00 quote\' "dq" backslash\\ sn\u00f6w \u2603 #%d' % n)
    if k == 7:
        return b'bytes \x00\xff ' * 6 + str(n).encode()
    if k == 8:
        return -float(n) / 7
    return n


def _unwrap(v):
    while id(v) in WRAPPED:
        v = WRAPPED[id(v)][1]
    return v


class ML(list):
    pass


class MD(dict):
    pass


SORT_KEYS = [False]     # sort_dict_keys setting of the print being modelled
SEQ_LIMIT = [None]      # max_seq_len of the print being modelled (None: nothing is cut off)


def _dict_keys(n):
    ks = list(n.keys())
    if SORT_KEYS[0] and not isinstance(n, collections.OrderedDict):
        ks.sort()
    if type(n) is dict and SEQ_LIMIT[0] is not None:
        ks = ks[:SEQ_LIMIT[0]]
    return ks


def kids(n):
    n = _unwrap(n)
    if type(n) in (list, tuple) and SEQ_LIMIT[0] is not None:
        return list(n)[:SEQ_LIMIT[0]]
    if isinstance(n, (list, tuple, collections.deque)):
        return list(n)
    if isinstance(n, collections.ChainMap):
        # printed as ChainMap(<maps...>); an empty single map is omitted by the printer
        return [m for m in n.maps] if (len(n.maps) > 1 or n.maps[0]) else []
    if isinstance(n, dict):
        return [n[k] for k in _dict_keys(n)]
    if isinstance(n, types.SimpleNamespace):
        return [vars(n)[k] for k in sorted(vars(n))]
    if isinstance(n, (Box, PBox)):
        return list(n.kids)
    return None


def expect(n, path, budget):
    """reference: DFS with an explicit path set; canonical tree [typename, keys-or-None, children]"""
    n = _unwrap(n)
    ks = kids(n)
    budget[0] -= 1
    if budget[0] < 0:
        raise OverflowError
    if ks is None:
        return ['leaf', n]
    if id(n) in path:
        return ['mark', type(n).__name__, id(n)]
    path.add(id(n))
    ch = [expect(k, path, budget) for k in ks]
    path.discard(id(n))
    if isinstance(n, NTL):
        return ['NTL', ['items', 'tag'], ch]
    if isinstance(n, dict):
        return [type(n).__name__, _dict_keys(n), ch]
    if isinstance(n, types.SimpleNamespace):
        return [type(n).__name__, sorted(vars(n)), ch]
    return [type(n).__name__, None, ch]


def parse(text):
    src = MARK.sub(lambda m: '__R_%s_%s' % (m.group(1), m.group(2)), text)
    tree = ast.parse('(' + src + '\n)', mode='eval').body

    def seq(e):
        if not isinstance(e, ast.List):
            raise ValueError('expected a list literal: ' + ast.dump(e)[:80])
        return [conv(x) for x in e.elts]

    def mapping(name, e):
        if not isinstance(e, ast.Dict):
            raise ValueError('expected a dict literal: ' + ast.dump(e)[:80])
        return [name, [ast.literal_eval(k) for k in e.keys], [conv(x) for x in e.values]]

    def conv(e):
        if isinstance(e, ast.Constant):
            return ['leaf', e.value]
        if isinstance(e, ast.UnaryOp) and isinstance(e.operand, ast.Constant):
            return ['leaf', ast.literal_eval(e)]
        if isinstance(e, ast.Name) and e.id.startswith('__R_'):
            _, _, _, t, i = e.id.split('_')
            return ['mark', t, int(i)]
        if isinstance(e, ast.List):
            return ['list', None, [conv(x) for x in e.elts]]
        if isinstance(e, ast.Tuple):
            return ['tuple', None, [conv(x) for x in e.elts]]
        if isinstance(e, ast.Dict):
            return mapping('dict', e)
        if isinstance(e, ast.Call):
            f = e.func
            name = f.attr if isinstance(f, ast.Attribute) else getattr(f, 'id', '?')
            if name in ('Box', 'PBox'):
                return [name, None, [conv(x) for x in e.args]]
            if name == 'NTL':
                return ['NTL', [k.arg for k in e.keywords], [conv(k.value) for k in e.keywords]]
            if name == 'ChainMap':
                return ['ChainMap', None, [conv(x) for x in e.args]]
            if name == 'deque':
                return ['deque', None, seq(e.args[0])]
            if name == 'ML':
                return ['ML', None, seq(e.args[0]) if e.args else []]
            if name == 'MD':
                return mapping('MD', e.args[0]) if e.args else ['MD', [], []]
            if name == 'defaultdict':
                return mapping('defaultdict', e.args[1])
            if name == 'OrderedDict':
                pairs = e.args[0].elts
                return ['OrderedDict', [ast.literal_eval(p.elts[0]) for p in pairs], [conv(p.elts[1]) for p in pairs]]
            if name == 'SimpleNamespace':
                return ['SimpleNamespace', [k.arg for k in e.keywords], [conv(k.value) for k in e.keywords]]
        raise ValueError(ast.dump(e)[:120])
    return conv(tree)


# ------------------------------------------------------------------ execution
def execute(spec):
    warnings.simplefilter('ignore')
    sys.setrecursionlimit(5000)
    nodes = []
    keykind = {}     # id(dict) -> True if this dict gets non-string keys (decided at its first key)
    WRAPPED.clear()
    leaf = [100]
    counters = {}
    res = dict(steps=len(spec['ops']), counters=counters, nontrivial=False,
               digest=core.digest_of(spec['ops']), **{'class': None})
    trace = []
    prints = 0

    def bump(k, n=1):
        counters[k] = counters.get(k, 0) + n

    def tgt(p):
        if isinstance(p, collections.ChainMap):
            return p.maps[0]
        return p[0] if isinstance(p, tuple) else p

    def fail(cls, sig, **d):
        res['class'] = cls
        res['signature'] = sig
        res['detail'] = dict(d, trace=trace[-12:])
        return res

    for op in spec['ops']:
        k = op[0]
        if k == 'new':
            kind = op[1]
            if kind == 'list':
                nodes.append([])
            elif kind == 'dict':
                nodes.append({})
            elif kind == 'tuple':
                leaf[0] += 1
                nodes.append(([], leaf[0]))
            elif kind == 'pbox':
                nodes.append(PBox())
            elif kind == 'ntuple':
                leaf[0] += 1
                nodes.append(NTL([], leaf[0]))        # like 'tuple': cycles pass through the list field
            elif kind == 'chainmap_over':
                # a ChainMap whose first map is an EXISTING dict node (the map itself can then lie on a cycle)
                dicts = [x for x in nodes if type(x) is dict]
                nodes.append(collections.ChainMap(dicts[len(nodes) % len(dicts)] if dicts else {}, {'z': 0}))
            elif kind == 'chainmap':
                nodes.append(collections.ChainMap({}))  # edges live in maps[0], a real dict on the path
            elif kind == 'deque':
                nodes.append(collections.deque())
            elif kind == 'odict':
                nodes.append(collections.OrderedDict())
            elif kind == 'ns':
                nodes.append(types.SimpleNamespace())
            elif kind == 'mylist':
                nodes.append(ML())
            elif kind == 'mydict':
                nodes.append(MD())
            elif kind == 'ddict':
                nodes.append(collections.defaultdict(list))
            else:
                nodes.append(Box())
            bump('node_' + kind)
            trace.append(op)
        elif k == 'edge':
            if not nodes:
                continue
            p = nodes[op[1] % len(nodes)]
            if op[2] == 'leaf':
                leaf[0] += 1
                c = _leaf(leaf[0])
            else:
                c = nodes[op[2] % len(nodes)]
            t = tgt(p)
            if len(op) > 3:
                # comment wrappers are not containers: the reference DFS looks through them
                w = (P.comment if op[3] == 'comment' else P.trailing_comment)(c, op[4])
                WRAPPED[id(w)] = (w, c)       # keeps the wrapper alive, so its id stays unique
                c = w
                bump('commented_edges')
            if isinstance(t, (list, collections.deque)):
                t.append(c)
            elif isinstance(t, dict):
                n_k = len(t)
                key = 'k%02d' % n_k
                if keykind.setdefault(id(t), type(t) is dict and len(keykind) % 3 == 2):
                    # keys that are not strings (ints, tuples, None-free so that they stay sortable among themselves)
                    key = (n_k, 'k') if n_k % 2 else (n_k,)
                t[key] = c
            elif isinstance(t, types.SimpleNamespace):
                setattr(t, 'k%02d' % len(vars(t)), c)
            else:
                t.kids.append(c)
            trace.append(op)
        elif k == 'fan':
            if not nodes:
                continue
            t = tgt(nodes[op[1] % len(nodes)])
            for _ in range(op[2]):
                leaf[0] += 1
                if isinstance(t, (list, collections.deque)):
                    t.append(leaf[0])
                elif isinstance(t, dict):
                    n_k = len(t)
                    if keykind.setdefault(id(t), type(t) is dict and len(keykind) % 3 == 2):
                        t[(n_k, 'k') if n_k % 2 else (n_k,)] = leaf[0]
                    else:
                        t['k%02d' % n_k] = leaf[0]
                elif isinstance(t, types.SimpleNamespace):
                    setattr(t, 'k%02d' % len(vars(t)), leaf[0])
                else:
                    t.kids.append(leaf[0])
            bump('fan_ops')
            trace.append(op)
        elif k == 'del':
            if not nodes:
                continue
            t = tgt(nodes[op[1] % len(nodes)])
            if isinstance(t, list) and t:
                t.pop(op[2] % len(t))
            elif isinstance(t, collections.deque) and t:
                t.rotate(-(op[2] % len(t)))
                t.popleft()
            elif isinstance(t, dict) and t:
                t.pop(list(t)[op[2] % len(t)])
            elif isinstance(t, types.SimpleNamespace) and vars(t):
                delattr(t, sorted(vars(t))[op[2] % len(vars(t))])
            elif isinstance(t, (Box, PBox)) and t.kids:
                t.kids.pop(op[2] % len(t.kids))
            trace.append(op)
        elif k == 'cc':
            PP.pretty_dispatch._clear_cache()
            bump('dispatch_cache_cleared')
            trace.append(op)
        elif k == 'failprint':
            if not nodes:
                continue
            root = nodes[op[1] % len(nodes)]
            try:
                expect(root, set(), [MAX_EXPECT])
            except OverflowError:
                continue
            ABORT['n'] = 0
            ABORT['at'] = None
            ABORT['nondoc'] = op[3] if op[2] == 'nondoc' else None
            try:
                if op[2] == 'nondoc':
                    P.pformat(root)
                elif op[2] == 'deep':
                    # an unrelated value nested far deeper than anything else here, wide at the bottom
                    deep = list(range(120))
                    for lvl in range(85 if op[3] == 1 else 140):
                        # every tenth level is wide as well (many containers side by side at that depth)
                        deep = [deep] + ([[lvl, i] for i in range(40)] if lvl % 10 == 9 else [])
                    P.pformat(deep)
                    bump('deep_prints')
                else:
                    P.pformat(root, max_seq_len=None)
                bump('failprint_returned')
            except (Exception, RecursionError):
                bump('failprint_raised')
            ABORT['nondoc'] = None
            trace.append(op)
        elif k in ('print', 'abort'):
            if not nodes:
                continue
            root = nodes[op[1] % len(nodes)]
            SORT_KEYS[0] = bool(k == 'print' and op[2].get('sort_dict_keys'))
            SEQ_LIMIT[0] = op[2].get('max_seq_len') if k == 'print' else None
            try:
                exp = expect(root, set(), [MAX_EXPECT])
            except OverflowError:
                bump('skipped_too_large')
                continue
            if k == 'abort':
                ABORT['n'] = 0
                ABORT['at'] = op[2]
                try:
                    P.pformat(root)
                    bump('abort_not_reached')
                except KeyboardInterrupt:
                    bump('aborted_prints')
                except Exception as e:
                    ABORT['at'] = None
                    return fail('print_raised', type(e).__name__, op=op, error=repr(e)[:300])
                ABORT['at'] = None
                trace.append(op)
                continue
            ABORT['at'] = None
            ABORT['n'] = 0
            ABORT['rereg'] = op[3] if len(op) > 3 else None
            if len(op) > 3:
                bump('prints_with_reregistration_inside')
            try:
                text = P.pformat(root, **op[2])
            except Exception as e:
                ABORT['rereg'] = None
                return fail('print_raised', type(e).__name__, op=op, error=repr(e)[:300])
            ABORT['rereg'] = None
            prints += 1
            bump('prints')
            trace.append(op)
            try:
                got = parse(text)
            except Exception as e:
                return fail('unparsable_output', type(e).__name__, op=op, text=text[:600])
            nm = text.count('<Recursion on')
            if nm:
                bump('prints_with_markers')
                bump('markers', nm)
            if prints > 1:
                res['nontrivial'] = True
            if got != exp:
                sig = 'first_print' if prints == 1 else 'after_earlier_print'
                if counters.get('aborted_prints'):
                    sig = 'after_aborted_print'
                return fail('wrong_structure', sig, op=op, text=text[:600], got=_brief(got), expected=_brief(exp))
        else:
            raise core.HarnessError('bad op %r' % (op,))
    res['sample'] = spec['ops'][:14]
    return res


def _brief(t):
    s = repr(t)
    return s if len(s) < 800 else s[:800] + '...'


def run(spec):
    return core.in_fork(lambda: execute(spec), RUN_TIMEOUT)


def on_timeout(spec):
    kind, res = core.in_fork(lambda: execute(spec), RUN_TIMEOUT * 3)
    if kind == 'timeout':
        return {'class': 'no_termination', 'signature': 'timeout', 'replay_spec': None, 'steps': len(spec['ops']),
                'detail': dict(ops=spec['ops'][:40]), 'digest': core.digest_of(spec['ops']),
                'counters': {}, 'nontrivial': False}
    if kind == 'ok':
        return res
    return None


def normalise(spec):
    return spec if any(o[0] == 'print' for o in spec['ops']) else None


def shrinkers(spec):
    return [('list', lambda sp: sp['ops'], lambda sp, ops: dict(sp, ops=[list(o) for o in ops]))]


def extra_evidence(st):
    return dict(enumerated_graph_specs={t: enum_count(t) for t in ('quick', 'thorough')},
                fault_kinds={'print aborted by KeyboardInterrupt in a printer': st.counters.get('aborted_prints', 0),
                             'dispatch cache cleared (buggify)': st.counters.get('dispatch_cache_cleared', 0)},
                simulated_time='operations applied (field simulated_steps)')
