"""C18 - all entry points and configuration layers agree.

Histories over the module-global defaults and the output seam: set_default_config(subset),
get_default_config(), calls through every entry point with an arbitrary subset of settings
passed explicitly, sys.stdout swapped under the call, and writes that fail at the k-th
write(). Reference: ConfigModel (a dict) gives the effective settings; the expected text is
the real pipeline below the merging layer with nothing defaulted.
"""
import abc
import datetime
import errno
import re
import sys
import warnings

from simkit import core, sched

ID = 'C18'
LEVEL = 'exploration'
RUN_TIMEOUT = 60.0
CHUNK = 100
TIERS = {'quick': dict(runs=40000, budget_s=240), 'thorough': dict(runs=1500000, budget_s=1500)}
RULE = ('seeded histories of 3-24 operations over {set_default_config(subset), get_default_config, '
        'call(entry point, explicit subset of the six settings, end string), the same call with a stream '
        'that raises at its k-th write}; entry points: pformat, pprint(stream=), pprint() with sys.stdout '
        'swapped, cpprint with colour off (both stream forms), pretty_repr, PrettyPrinter(**settings)'
        '.pformat/.pprint. Setting domains are small and include explicit falsy values (depth=0, '
        'sort_dict_keys=False, width=1). distinct = distinct operation list; non-trivial = distinct AND '
        'some default was changed and a later call left that setting to the default.')
REAL = ['prettyprinter/__init__.py merging layer and entry points, python_to_sdocs, layout, render '
        '(tree under check)', 'colorful (disabled)', 'sys.stdout lookup']
STUBS = ['SimStream (records writes; raises OSError/ValueError at the k-th write on demand)']
ASSUMPTIONS = ['colour is switched off with colorful.disable() for cpprint, as the property states',
               'set_default_config is only offered the settings it accepts (it has no indent parameter)']

P = PP = None
VALUES = []
REPR_CAPABLE = []
DOM = dict(indent=[1, 2, 4, 8], width=[1, 10, 20, 40, 79, 120, 400], ribbon_width=[1, 10, 40, 71, 200, 400],
           depth=[None, 0, 1, 2, 5], max_seq_len=[1, 2, 3, 1000],
           sort_dict_keys=[False, True])
KEYS = ['indent', 'width', 'depth', 'ribbon_width', 'max_seq_len', 'sort_dict_keys']
SETTABLE = ['max_seq_len', 'width', 'ribbon_width', 'depth', 'sort_dict_keys']
ENTRIES = ['pformat', 'pprint_stream', 'pprint_stdout', 'cpprint_stream', 'cpprint_stdout',
           'pretty_repr', 'PP_pformat', 'PP_pprint_stream', 'PP_pprint_stdout']
ENDS = ['\n', '', None, 'XYZ', '\n\n']
FAULTS = ['EPIPE', 'ENOSPC', 'closed']


class FalsyStream(list):
    """a perfectly good stream object that is falsy as long as nothing was written to it"""
    fired = False

    def write(self, t):
        self.append(t)
        return len(t)

    def text(self):
        return ''.join(self)


class Tag(str):
    """a str subclass: equal to and hashing like the plain str with the same characters"""


class Reg:
    def __init__(self, v):
        self.v = v


class Shape(abc.ABC):
    """has a registered printer; Circle is only a *virtual* subclass (Shape.register)"""


class Circle:
    def __init__(self, r, label):
        self.r = r
        self.label = label


class Table:
    """unregistered; multi-line repr whose lines end in blanks"""

    def __repr__(self):
        return 'Table(\n| id  name  \n| 1   x     \n| 22  yy    \n)'


class Late:
    """uses pretty_repr but gets its printer only later in the history"""

    def __init__(self, v):
        self.v = v


class HMemoStr:
    """printer returns one memoised Doc (built once) that contains a width-dependent contextual part"""


class Money:
    def __init__(self, amount, cur):
        self.amount, self.cur = amount, cur


class BoxU:
    """unregistered: printed with its own plain repr, which embeds repr(inner)"""

    def __init__(self, inner):
        self.inner = inner

    def __repr__(self):
        return 'Box(%r)' % (self.inner,)


class Invoice:
    def __init__(self, number, total):
        self.number, self.total = number, total


class Reentrant:
    """its printer returns a contextual document whose evaluator calls pformat again at layout time"""

    def __init__(self, inner):
        self.inner = inner


class TabRepr:
    """unregistered; its repr ends in white space that is not the separator (both renderers strip it at a line end)"""

    def __repr__(self):
        return 'TabRepr\t'


class OldStyle:
    """unregistered; its __repr__ itself calls pformat (re-entrancy while the document is built)"""

    def __init__(self, x):
        self.x = x

    def __repr__(self):
        return 'OldStyle(%s)' % P.pformat(self.x, width=200)


class SimStream:
    def __init__(self, fail_at=None, fault=None):
        self.w = []
        self.fail_at = fail_at
        self.fault = fault
        self.fired = False

    def write(self, t):
        if self.fail_at is not None and len(self.w) >= self.fail_at:
            self.fired = True
            if self.fault == 'closed':
                raise ValueError('I/O operation on closed file')
            code = errno.EPIPE if self.fault == 'EPIPE' else errno.ENOSPC
            raise OSError(code, 'injected ' + self.fault)
        if not isinstance(t, str):
            raise TypeError('write() argument must be str')
        self.w.append(t)
        return len(t)

    def flush(self):
        pass

    def isatty(self):
        return False

    def text(self):
        return ''.join(self.w)


def setup():
    global P, PP
    sched.install_lock_seam()      # only used by the non-deciding concurrency observation below
    P, PP = core.import_package()
    import colorful
    colorful.disable()
    Reg.__repr__ = P.pretty_repr

    @P.register_pretty(Reg)
    def pr(v, ctx):
        return P.pretty_call(ctx, Reg, v.v)
    Late.__repr__ = P.pretty_repr
    Money.__repr__ = P.pretty_repr
    Invoice.__repr__ = P.pretty_repr

    @P.register_pretty(Money)
    def pmoney(v, ctx):
        return P.pretty_call(ctx, Money, v.amount, v.cur)

    @P.register_pretty(Invoice)
    def pinvoice(v, ctx):
        return P.pretty_call(ctx, Invoice, number=v.number, total=v.total)

    memo = {}

    @P.register_pretty(HMemoStr)
    def pmemostr(v, ctx):
        if 'doc' not in memo:
            from prettyprinter.doc import concat as _concat, contextual as _contextual
            memo['doc'] = _concat(['HMemoStr(', _contextual(
                lambda indent, column, page_width, ribbon_width: 'page_width=%d' % page_width), ')'])
        return memo['doc']
    Shape.register(Circle)
    Circle.__repr__ = P.pretty_repr

    @P.register_pretty(Shape)
    def pshape(v, ctx):
        return P.pretty_call(ctx, type(v), radius=v.r, label=v.label)

    from prettyprinter.doc import contextual

    @P.register_pretty(Reentrant)
    def preent(v, ctx):
        def evaluator(indent, column, page_width, ribbon_width):
            return 'Reentrant<%s>' % P.pformat(v.inner, width=200).replace('\n', ' ')
        return contextual(evaluator)
    VALUES[:] = [
        {'b': [1, 2, 3], 'a': ('x' * 30, 2.5), 'c': {3}},
        [[[[1, [2]]]]],
        list(range(12)),
        {'k' * 12: {'z': 1, 'y': [1, 2]}},
        'word ' * 30,
        Reg({'q': [1, 2, 3, 4], 'p': [[5]]}),
        Reg([Reg(1), 'y' * 50]),
        {3: 'c', 1: 'a', 2: {'z': 0, 'b': [1, [2, [3]]]}},
        (1, (2, (3, (4,)))),
        b'bytes ' * 20,
        {'set': {5, 6, 7, 8}, 'fs': frozenset([1]), 'e': []},
        [{'y': 1, 'x': 2}] * 3,
        Circle(2, 'l' * 40),
        {'shapes': [Circle(1, 'a'), Circle([1, [2, [3]]], 'b')]},
        [Reentrant([1, 2, 3]), {'k': Reentrant({'b': 1, 'a': [2, 3]})}],
        {'old': OldStyle([1, 2, {'z': 1, 'a': 2}]), 'more': [OldStyle('x')] * 2},
    ]
    long_text = 'lorem ipsum dolor sit amet consectetur ' * 16
    VALUES.extend([
        long_text,
        Tag(long_text),
        [Tag('short'), 'short'],
        {'timeout': datetime.timedelta(hours=2, minutes=30), 'ttl': [datetime.timedelta(days=800, seconds=3)]},
        {'ids': list(range(60)), 'name': 'x'},
        [HMemoStr(), {'again': HMemoStr()}],
        Invoice(2, BoxU(Money(10, 'EUR'))),
        {'t': Table(), 'more': [Table()]},
        [P.comment(1, 'one\n \ntwo'), P.trailing_comment([2, 3], 'ends with blanks   ')],
        'trailing blanks   ' * 8,
        [TabRepr(), {'k': TabRepr(), 'j': [TabRepr()]}],
    ])
    REPR_CAPABLE[:] = [i for i, v in enumerate(VALUES) if isinstance(v, (Reg, Circle, Invoice))]


def generate(rng, idx, tier):
    ops = []
    p_explicit = rng.choice([0.15, 0.4, 0.7])
    p_set = rng.choice([0.2, 0.5])
    for step in range(rng.randrange(3, 25)):
        k = rng.choice(['set', 'set', 'get', 'call', 'call', 'call', 'call', 'faulty', 'pp_new', 'pp_use', 'pp_use'])
        if k == 'pp_new' and rng.random() < 0.3:
            ops.append([rng.choice(['late_repr', 'late_repr', 'late_register'])])
            continue
        if k == 'pp_new':
            ops.append(['pp_new', {s_: rng.choice(DOM[s_]) for s_ in KEYS if rng.random() < p_explicit}])
            continue
        if k == 'pp_use':
            ops.append(['pp_use', rng.randrange(4), rng.randrange(27), rng.choice(['pformat', 'pprint'])])
            continue
        if k == 'set':
            sub = {s: rng.choice(DOM[s]) for s in SETTABLE if rng.random() < p_set}
            if rng.random() < 0.05:
                sub['style'] = rng.choice(['light', 'dark'])
            ops.append(['set', sub])
        elif k == 'get':
            ops.append(['get'])
        else:
            entry = rng.choice(ENTRIES)
            v = rng.randrange(len(VALUES) if VALUES else 27)
            explicit = {s: rng.choice(DOM[s]) for s in KEYS if rng.random() < p_explicit}
            end = rng.choice(ENDS)
            if k == 'faulty':
                if entry in ('pformat', 'pretty_repr', 'PP_pformat'):
                    entry = rng.choice(['pprint_stream', 'pprint_stdout', 'cpprint_stream',
                                        'PP_pprint_stream'])
                ops.append(['call', entry, v, explicit, end, rng.randrange(0, 8), rng.choice(FAULTS)])
            else:
                ops.append(['call', entry, v, explicit, end, None, None])
    return dict(ops=ops)


def _calls_pformat_itself(v, depth=0):
    """values whose printer / __repr__ makes a nested pformat call with defaulted settings: their text
    legitimately depends on the defaults in force"""
    if isinstance(v, (Reentrant, OldStyle, Late, Invoice, Money, BoxU)):
        return True
    if depth > 6:
        return False
    if isinstance(v, dict):
        return any(_calls_pformat_itself(x, depth + 1) for x in list(v.keys()) + list(v.values()))
    if isinstance(v, (list, tuple, set, frozenset)):
        return any(_calls_pformat_itself(x, depth + 1) for x in v)
    return False


def _expected(v, eff):
    try:
        # the public pipeline below the merging layer, rendered into our own stream
        st = SimStream()
        P.default_render_to_stream(st, P.python_to_sdocs(v, **eff))
        return st.text(), 'pipeline'
    except (ImportError, TypeError, AttributeError):
        return P.pformat(v, **eff), 'all_explicit_pformat'


def execute(spec):
    warnings.simplefilter('ignore')
    model = {k: P.get_default_config()[k] for k in KEYS}
    changed_defaults = set()
    counters = {}
    res = dict(steps=len(spec['ops']), counters=counters, nontrivial=False,
               digest=core.digest_of(spec['ops']), **{'class': None})
    trace = []
    keep = []       # persistent PrettyPrinter objects: (object, explicit settings)
    late = [False]
    seen_calls = []  # (op, value, effective settings, text): re-derived under the stock defaults at the end
    stock = dict(model)

    def bump(k):
        counters[k] = counters.get(k, 0) + 1

    def fail(cls, sig, **d):
        res['class'] = cls
        res['signature'] = sig
        res['detail'] = dict(d, model=dict(model), trace=trace[-6:])
        return res

    for op in spec['ops']:
        k = op[0]
        if k == 'set':
            sub = dict(op[1])
            try:
                P.set_default_config(**sub)
            except Exception as e:
                return fail('set_default_config_raised', type(e).__name__, op=op, error=repr(e))
            for s, val in sub.items():
                if s != 'style':
                    if model[s] != val:
                        changed_defaults.add(s)
                    model[s] = val
            bump('op_set')
            trace.append(op)
            cur = P.get_default_config()
            got = {s: cur[s] for s in KEYS if s in cur}
            if got != model:
                return fail('defaults_wrong', 'after_set', op=op, got=got)
        elif k == 'get':
            bump('op_get')
            cur = P.get_default_config()
            try:
                got = {s: cur[s] for s in KEYS}
            except KeyError as e:
                return fail('defaults_wrong', 'missing_key', op=op, error=repr(e))
            trace.append(op)
            if got != model:
                return fail('defaults_wrong', 'get', op=op, got=got)
        elif k == 'late_register':
            if not late[0]:
                target = Late if len(spec['ops']) % 2 else Late.__module__ + '.' + Late.__qualname__
                P.register_pretty(target)(lambda v, ctx: P.pretty_call(ctx, Late, v.v))
                late[0] = True
                bump('late_registered_by_name' if isinstance(target, str) else 'late_registered_by_class')
            bump('op_late_register')
            trace.append(op)
        elif k == 'late_repr':
            inst = Late({'q': [1, 2, 3]})
            try:
                got = repr(inst)
            except Exception as e:
                return fail('entry_raised', type(e).__name__, op=op, error=repr(e)[:300])
            bump('op_late_repr_registered' if late[0] else 'op_late_repr_unregistered')
            trace.append(op)
            if late[0]:
                exp, _how = _expected(inst, dict(model))
                if got != exp:
                    return fail('text_differs', 'pretty_repr_after_late_registration', op=op, got=got[:300],
                                expected=exp[:300])
            elif not re.fullmatch(r'<[\w.]+ object at 0x[0-9a-f]+>', got):
                return fail('text_differs', 'pretty_repr_unregistered', op=op, got=got[:300])
        elif k == 'pp_new':
            # a PrettyPrinter object that lives on: its explicit settings are fixed now, whatever it
            # leaves to the defaults must follow later set_default_config calls
            try:
                keep.append((P.PrettyPrinter(**dict(op[1])), dict(op[1])))
            except Exception as e:
                return fail('entry_raised', type(e).__name__, op=op, error=repr(e)[:300])
            bump('op_pp_new')
            trace.append(op)
        elif k == 'pp_use':
            if not keep:
                continue
            obj, explicit = keep[op[1] % len(keep)]
            v = VALUES[op[2] % len(VALUES)]
            eff = dict(model)
            eff.update(explicit)
            exp, how = _expected(v, eff)
            bump('entry_persistent_PrettyPrinter_' + op[3])
            if any(s_ not in explicit for s_ in changed_defaults):
                res['nontrivial'] = True
            st = SimStream()
            old = sys.stdout
            try:
                try:
                    if op[3] == 'pformat':
                        got = obj.pformat(v)
                    else:
                        sys.stdout = st
                        obj.pprint(v)
                        got = st.text()
                        exp = exp + '\n'
                finally:
                    sys.stdout = old
            except Exception as e:
                return fail('entry_raised', type(e).__name__, op=op, error=repr(e)[:300])
            trace.append(op)
            if got != exp:
                return fail('text_differs', 'persistent_PrettyPrinter', op=op, got=got[:400], expected=exp[:400],
                            effective=eff, constructed_with=explicit)
        elif k == 'call':
            _, entry, vi, explicit, end, fail_at, fault = op
            v = VALUES[vi]
            explicit = dict(explicit)
            if entry == 'pretty_repr':
                if vi not in REPR_CAPABLE:
                    v = VALUES[REPR_CAPABLE[vi % len(REPR_CAPABLE)]]
                explicit = {}
            eff = dict(model)
            eff.update(explicit)
            exp, how = _expected(v, eff)
            bump('oracle_' + how)
            endtxt = end or ''
            st = SimStream(fail_at, fault) if (fail_at is not None or len(spec['ops']) % 3) else FalsyStream()
            if isinstance(st, FalsyStream):
                bump('falsy_stream_calls')
            wrote = None
            bump('entry_' + entry)
            if any(s not in explicit for s in changed_defaults):
                res['nontrivial'] = True
            if any(s in explicit and not explicit[s] for s in explicit):
                bump('explicit_falsy_setting')
            old = sys.stdout
            try:
                try:
                    if entry == 'pformat':
                        got = P.pformat(v, **explicit)
                    elif entry == 'pretty_repr':
                        got = repr(v)
                    elif entry == 'PP_pformat':
                        got = P.PrettyPrinter(**explicit).pformat(v)
                    else:
                        fn = P.cpprint if entry.startswith('cpprint') else P.pprint
                        exp = exp + endtxt
                        if entry.startswith('PP_'):
                            if entry.endswith('stream'):
                                P.PrettyPrinter(stream=st, end=end, **explicit).pprint(v)
                            else:
                                sys.stdout = st
                                P.PrettyPrinter(end=end, **explicit).pprint(v)
                        elif entry.endswith('stream'):
                            fn(v, stream=st, end=end, **explicit)
                        else:
                            sys.stdout = st
                            fn(v, end=end, **explicit)
                        got = st.text()
                finally:
                    sys.stdout = old
            except (OSError, ValueError) as e:
                if not st.fired:
                    return fail('entry_raised', type(e).__name__, op=op, error=repr(e)[:300])
                bump('write_fault_fired_' + fault)
                trace.append(op)
                if not exp.startswith(st.text()):
                    return fail('wrong_data_before_fault', entry, op=op, written=st.text()[:300],
                                expected=exp[:300])
                continue
            except Exception as e:
                return fail('entry_raised', type(e).__name__, op=op, error=repr(e)[:300])
            trace.append(op)
            if st.fired:
                return fail('write_error_swallowed', entry, op=op)
            if got != exp:
                return fail('text_differs', entry, op=op, got=got[:400], expected=exp[:400],
                            effective=eff)
            if entry != 'pretty_repr' and not _calls_pformat_itself(v):
                seen_calls.append((op, v, eff, exp[:len(exp) - len(endtxt)] if entry not in ('pformat', 'PP_pformat') and endtxt else exp))
        else:
            raise core.HarnessError('bad op %r' % (op,))
    # the defaults at the end of the history (after any aborted writes) still equal the model
    cur = P.get_default_config()
    if {s: cur[s] for s in KEYS if s in cur} != model:
        return fail('defaults_wrong', 'end_of_history', got=dict(cur))
    # explicit arguments ALWAYS override defaults: the text of a call is a function of its effective
    # settings only. Put the stock defaults back and re-derive every call's text with all six settings
    # explicit; it must not have depended on what the defaults were when the call was made.
    if seen_calls and model != stock:
        P.set_default_config(**{s_: stock[s_] for s_ in SETTABLE})
        for op, v, eff, text in seen_calls[-12:]:
            again, _how = _expected(v, eff)
            bump('rederived_under_stock_defaults')
            if again != text:
                return fail('depends_on_defaults_beyond_effective_settings', op[1], op=op, effective=eff,
                            text_when_called=text[:400], text_under_stock_defaults=again[:400])
    res['sample'] = [o if o[0] != 'call' else o[:2] + o[3:] for o in spec['ops'][:8]]
    # handed to a pristine sibling process by run(): (value index, effective settings, text)
    res['rederive'] = [[op[2], eff, text] for op, v, eff, text in seen_calls[-8:]]
    return res


def _rederive(records):
    import warnings as _w
    _w.simplefilter('ignore')
    out = []
    for vi, eff, text in records:
        again, _how = _expected(VALUES[vi], eff)
        out.append(again)
    return out


def run(spec):
    kind, res = core.in_fork(lambda: execute(spec), RUN_TIMEOUT)
    if kind != 'ok' or res.get('class') or not res.get('rederive') or core.digest_of(spec['ops'])[-1] not in '0123':
        if kind == 'ok':
            res.pop('rederive', None)
        return kind, res
    # one history in four: the same (value, effective settings) rendered in a process that has printed
    # nothing else must give the same text (the in-history oracle shares the process state with the calls)
    records = res.pop('rederive')
    k2, again = core.in_fork(lambda: _rederive(records), RUN_TIMEOUT)
    if k2 != 'ok':
        return k2, again
    res['counters']['rederived_in_pristine_process'] = len(records)
    for (vi, eff, text), fresh in zip(records, again):
        if fresh != text:
            res['class'] = 'text_depends_on_process_history'
            res['signature'] = 'value_%d' % vi
            res['detail'] = dict(value=vi, effective=eff, text_in_history=text[:400], text_in_pristine_process=fresh[:400])
            break
    return kind, res


def on_timeout(spec):
    return None


def normalise(spec):
    return spec if spec['ops'] else None


def shrinkers(spec):
    def simpler_calls(sp):
        for i, op in enumerate(sp['ops']):
            if op[0] == 'call':
                for key in list(op[3]):
                    ex = dict(op[3])
                    del ex[key]
                    ops = [list(o) for o in sp['ops']]
                    ops[i][3] = ex
                    yield dict(sp, ops=ops)
                if op[4] != '\n':
                    ops = [list(o) for o in sp['ops']]
                    ops[i][4] = '\n'
                    yield dict(sp, ops=ops)
            elif op[0] == 'set':
                for key in list(op[1]):
                    sub = dict(op[1])
                    del sub[key]
                    ops = [list(o) for o in sp['ops']]
                    ops[i][1] = sub
                    yield dict(sp, ops=ops)
    return [('list', lambda sp: sp['ops'], lambda sp, ops: dict(sp, ops=[list(o) for o in ops])),
            ('alts', simpler_calls)]


def extra_evidence(st):
    c = st.counters
    return dict(fault_kinds={k[len('write_fault_fired_'):]: v for k, v in c.items()
                             if k.startswith('write_fault_fired_')},
                entry_points={k[len('entry_'):]: v for k, v in c.items() if k.startswith('entry_')},
                setting_domains=DOM,
                simulated_time='operations applied (field simulated_steps)')


# ------------------------------------------------------------------ non-deciding observation
# C18 quantifies over sequential histories and C20 over concurrent pformat calls only, so a
# pformat that overlaps a set_default_config in another thread is outside both. The observation
# below (never a VIOLATION, never changes the exit code) records whether such a call can see a
# MIX of old and new defaults (it cannot on the pinned tree: the defaults dict is read once and
# replaced atomically).
PROBE_RUNS = {'quick': 48, 'thorough': 600}


def _probe_one(seed):
    import warnings as _w
    _w.simplefilter('ignore')
    shared, _names = sched.shared_codes()
    v = [[1, 2, 3], [4, 5, 6], [7, 8, 9]]
    old = {k: P.get_default_config()[k] for k in KEYS}
    new = dict(old, depth=1, max_seq_len=2, width=30)
    s = sched.Scheduler(dict(policy='biased', p=[0.0, 0.01, 0.05][seed % 3], p_shared=[0.3, 0.5][seed % 2],
                             seed=seed, opcode=True, max_steps=400000), shared, wall_timeout=60)
    s.spawn([lambda: P.pformat(v)])
    s.spawn([lambda: P.set_default_config(depth=1, max_seq_len=2, width=30) and None])
    s.run()
    if s.aborted:
        return dict(outcome='aborted:' + s.aborted, switches=s.switches)
    got = s.threads[0].results[0]['out']
    if got[0] != 'ok':
        return dict(outcome='raised:' + got[1], switches=s.switches)
    t_old = P.pformat(v, **old)
    t_new = P.pformat(v, **new)
    # afterwards, a call that leaves everything to the defaults must use what get_default_config reports
    now = {k: P.get_default_config()[k] for k in KEYS}
    if P.pformat(v) != P.pformat(v, **now):
        return dict(outcome='stale_afterwards', switches=s.switches, text=P.pformat(v)[:200])
    return dict(outcome='old' if got[1] == t_old else 'new' if got[1] == t_new else 'mixed',
                switches=s.switches, text=got[1][:200])


def pre_batch(tier):
    from collections import Counter
    outcomes = Counter()
    sample = None
    for seed in range(PROBE_RUNS[tier]):
        kind, r = core.in_fork(lambda: _probe_one(seed), 90)
        if kind != 'ok':
            outcomes['harness_' + kind] += 1
            continue
        outcomes[r['outcome']] += 1
        if r['outcome'] not in ('old', 'new') and sample is None:
            sample = r
    if outcomes.get('stale_afterwards'):
        print('OBSERVATION (non-deciding, outside the quantifier of C18 and C20): after a pformat overlapped '
              'set_default_config in another thread, later defaulted calls kept using stale defaults in %d of %d '
              'schedules' % (outcomes['stale_afterwards'], PROBE_RUNS[tier]))
    if outcomes.get('mixed'):
        print('OBSERVATION (non-deciding, outside the quantifier of C18 and C20): a pformat overlapping '
              'set_default_config in another thread saw a mix of old and new defaults in %d of %d schedules'
              % (outcomes['mixed'], PROBE_RUNS[tier]))
    return dict(observations={'pformat_concurrent_with_set_default_config': dict(
        schedules=PROBE_RUNS[tier], outcomes=dict(outcomes), sample=sample,
        note='non-deciding: outside the quantifiers of C18 (sequential histories) and C20 (pformat calls only)')})
