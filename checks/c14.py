"""C14 - a failing printer is contained at the value it was printing.

For every generated tree of instrumented objects the single-fault space
(printer invocation i) x (phase: at entry / after the children were printed) x
(exception class: TypeError + two others) is enumerated completely; non-doc return
values and fault pairs are added. Oracle: differential against the real code - the run in
which invocation i *returns* repr(value) instead of raising.
"""
import collections
import dataclasses
import inspect
import itertools
import os
import random
import re
import sys
import types
import warnings

from simkit import core

ID = 'C14'
LEVEL = 'fault_enumeration'
RUN_TIMEOUT = 120.0
MAX_SITES = 16
CHUNK = 10
TIERS = {'quick': dict(runs=2400, budget_s=240), 'thorough': dict(runs=150000, budget_s=1500)}
RULE = ('each evaluation is one seeded tree (four harness classes: printer with / without trailing_comment '
        'support, registered by predicate, registered by name + subclass; built-in containers; comment()/'
        'trailing_comment() wrappers; shared children; per-tree knob: bundled printers of list/tuple/dict '
        '(and of the leaf types) instrumented as fault sites too) for which ALL single faults '
        '(invocation x {entry, after-children} x {TypeError + 2 seeded exception classes}, half of them with '
        'an awkward message payload such as braces, percent signs, newlines, non-ASCII) are injected for up '
        'to 16 sites per tree (every further site gets one fault), plus one non-doc return per site and '
        'sampled fault pairs; every faulty print is followed '
        'by fault-free prints in the same process. distinct = distinct (tree, width) digest; non-trivial = '
        'distinct AND at least one injected fault fired below the top level or under a trailing comment.')
REAL = ['prettyprinter/* (tree under check)', 'functools.singledispatch', 'warnings', 'inspect.signature']
STUBS = ['harness classes with instrumented printers (fault plan consulted at each invocation)']
ASSUMPTIONS = ['repr() of the harness values cannot fail (the fall-back itself calls repr)',
               'faults are exceptions derived from Exception raised synchronously by a printer, or a '
               'non-str/non-Doc return value; asynchronous exceptions are not injected']

P = PP = None


class Boom(Exception):
    pass


class BadStr(Exception):
    """an exception whose own __str__ fails"""

    def __str__(self):
        raise RuntimeError('str() of the exception failed')


class Chained(Exception):
    """raised 'from' another exception (explicit cause)"""


def _raise(cls, payload):
    if cls is Chained:
        try:
            raise KeyError('inner {cause}')
        except KeyError as inner:
            raise Chained(payload) from inner
    if cls is ExceptionGroup:
        raise ExceptionGroup(payload or 'group', [ValueError('a {0}'), Boom('b')])
    raise cls(payload)


EXC = {c.__name__: c for c in (ValueError, TypeError, KeyError, AttributeError, RuntimeError,
                               ZeroDivisionError, AssertionError, RecursionError, StopIteration,
                               OSError, LookupError, ArithmeticError, NotImplementedError,
                               UnicodeError, MemoryError, EOFError, Boom, BadStr, Chained,
                               ExceptionGroup)}
# exception payloads: text that a careless warning/format path could choke on
PAYLOADS = ['injected fault', '{}', '{name} {0}', '%s %(x)d %', 'line1\nline2', 'sn\u00f6wm\u00e4n \u2603', "{'id': 3}",
            '', '}{', '\\N{bad}', 'x' * 300]
NONDOCS = {'None': None, 'int': 0, 'bytes': b'', 'list': [], 'object': object(), 'tuple': ('a',)}

SETTINGS = {}        # extra pformat settings of the tree under test (per run)
REPEAT = [False]       # set once per tree: repeat the next single raise-fault several times
SHARED_TREE = [False]  # the tree has an object that occurs more than once
PLAN = {}            # invocation index -> (phase, mode, arg)
COUNT = [0]
FIRED = []
LAST_PRINTER = [None]


class Node:
    def __init__(self, name, kids):
        self.name = name
        self.kids = kids

    def __repr__(self):
        return '%s<%s>' % (type(self).__name__, self.name)

    def __str__(self):          # differs from repr on purpose: the fall-back must be repr
        return 'str-of-%s' % self.name


class NT(Node):      # printer accepts trailing_comment
    pass


class NP(Node):      # printer does not
    pass


class NPred(Node):   # registered by predicate
    pass


class NName(Node):   # registered by qualified name (deferred)
    pass


class NSub(NName):   # dispatches through its by-name base
    pass


def _default_part():
    return NT('dflt', [])


@dataclasses.dataclass
class DHolder:
    """printed by the bundled dataclasses extra; `part` comes from a default_factory and has no __eq__"""
    part: object = dataclasses.field(default_factory=_default_part)
    n: int = 0


class NKw(Node):     # printer takes the trailing comment through **options
    pass


class NDict(dict):   # registered printer, but the *builtin* repr (insertion-ordered, unsorted keys)
    @property
    def kids(self):
        return [self[k] for k in self if k not in ('zeta', 'alpha')]

    @property
    def name(self):
        return 'd%d' % len(self)


class NList(list):   # same for a list subclass
    @property
    def kids(self):
        return list(self)

    name = 'l'


NESTED = [0]


class NRepr(Node):   # uses the documented `__repr__ = pretty_repr` idiom (through a counting shim)
    def __repr__(self):
        NESTED[0] += 1
        try:
            return P.pretty_repr(self)
        finally:
            NESTED[0] -= 1

    __str__ = __repr__


NT1 = collections.namedtuple('NT1', 'only')
NT2 = collections.namedtuple('NT2', 'first second')

KINDS = {'NT': NT, 'NP': NP, 'NPred': NPred, 'NName': NName, 'NSub': NSub, 'NKw': NKw, 'NRepr': NRepr}
REPRS = {}           # id(value) -> repr(value) taken OUTSIDE any print (independent of the code under test's state)


def _body(v, ctx, me):
    if not NESTED[0]:
        INVOKED.add(id(v))
    if NESTED[0]:
        # a print nested inside the fall-back repr() of a pretty_repr class: healthy, not a fault site
        return P.pretty_call(ctx, type(v), *v.kids, name=v.name)
    i = COUNT[0]
    COUNT[0] += 1
    plan = PLAN.get(i)
    if plan is not None and plan[0] == 0:
        return _fire(i, plan, v, me)
    doc = P.pretty_call(ctx, type(v), *v.kids, name=v.name)
    if plan is not None:
        return _fire(i, plan, v, me)
    return doc


def _fire(i, plan, v, me):
    FIRED.append((i, me.__name__))
    mode, arg = plan[1], plan[2]
    if mode == 'raise':
        payload = PAYLOADS[plan[3] % len(PAYLOADS)] if len(plan) > 3 and plan[3] is not None else \
            'injected fault at invocation %d' % i
        if arg == 'KeyError' and payload.startswith('{\''):
            raise KeyError({'id': 3})
        _raise(EXC[arg], payload)
    if mode == 'nondoc':
        return NONDOCS[arg]
    if mode == 'sentinel':
        return 'SENTINEL_%d_' % i
    # mode == 'repr': the healthy reference returns the value's repr as it reads outside any print
    return REPRS.get(id(v)) or repr(v)


BUNDLED_CONTAINERS = (list, tuple, dict)
BUNDLED_LEAVES = (int, str, float, bool, type(None))


def wrap_bundled(types):
    """Fault seam for bundled printers (no repo hook): re-register a functools.wraps copy of the
    function found in the dispatch registry. Returns the number of printers wrapped; a registry
    that no longer has the partial(_run_pretty, fn) shape is skipped (and said so in evidence)."""
    import functools
    n = 0
    for t in types:
        entry = PP.pretty_dispatch.registry.get(t)
        fn = getattr(entry, 'args', (None,))[0] if isinstance(entry, functools.partial) else None
        if fn is None or not callable(fn) or getattr(fn, '_verif_wrapped', False):
            continue

        def make(fn):
            sig = inspect.signature(fn)

            @functools.wraps(fn)
            def wrapper(value, ctx, *a, **kw):
                sig.bind(value, ctx, *a, **kw)      # same TypeError as the real printer, before any body runs
                if NESTED[0]:
                    return fn(value, ctx, *a, **kw)     # inside a nested pretty_repr print: not a fault site
                i = COUNT[0]
                COUNT[0] += 1
                plan = PLAN.get(i)
                if plan is not None and plan[0] == 0:
                    return _fire(i, plan, value, fn)
                doc = fn(value, ctx, *a, **kw)
                if plan is not None:
                    return _fire(i, plan, value, fn)
                return doc
            wrapper._verif_wrapped = True
            return wrapper
        P.register_pretty(t)(make(fn))
        n += 1
    return n


def setup():
    global P, PP
    P, PP = core.import_package()
    from prettyprinter import register_pretty
    P.install_extras(include=['dataclasses'], raise_on_error=True)

    @register_pretty(NT)
    def prn_tcaware(v, ctx, trailing_comment=None):
        return _body(v, ctx, prn_tcaware)

    @register_pretty(NP)
    def prn_plain(v, ctx):
        return _body(v, ctx, prn_plain)

    @register_pretty(predicate=lambda v: isinstance(v, NPred))
    def prn_predicate(v, ctx):
        return _body(v, ctx, prn_predicate)

    @register_pretty(NKw)
    def prn_kwargs(v, ctx, **options):
        return _body(v, ctx, prn_kwargs)

    @register_pretty(NDict)
    def prn_dictsub(v, ctx):
        return _body(v, ctx, prn_dictsub)

    @register_pretty(NList)
    def prn_listsub(v, ctx):
        return _body(v, ctx, prn_listsub)

    @register_pretty(NRepr)
    def prn_reprclass(v, ctx):
        return _body(v, ctx, prn_reprclass)

    @register_pretty(NName.__module__ + '.' + NName.__qualname__)
    def prn_byname(v, ctx):
        return _body(v, ctx, prn_byname)


# ------------------------------------------------------------------ trees
LEAVES = [1, 'leaf', None, 2.5, 'a longer leaf string', True, 1, 'leaf', None, 2.5,
          'words that go on and on so that the string has to be split over several lines ' * 2,
          'tab\t nul\x00 quote\' "dq" backslash\\ sn\u00f6w \u2603 {braces} %s', '', -0.0, 10 ** 30, -7, float('inf'),
          'line one\nline two\n\nline four']


def gen_tree(r, budget, depth=0, pool=None):
    """Returns a JSON tree spec. budget: [remaining object nodes]."""
    k = r.random()
    if pool is not None and pool[0] > 0 and k < 0.12:
        node = ['ref', r.randrange(pool[0])]
    elif depth > 4 or k < 0.18 or (budget[0] <= 0 and k < 0.75):
        node = ['leaf', r.choice(LEAVES)]
    elif k < 0.70 and budget[0] > 0:
        budget[0] -= 1
        kind = r.choice(['NT', 'NT', 'NP', 'NP', 'NPred', 'NName', 'NSub', 'NKw', 'NRepr'])
        if kind == 'NRepr':
            # leaves only below: its fall-back repr() is a nested pformat that must stay warning-free
            kids = [['leaf', r.choice([1, 'leaf', None, 2.5])] for _ in range(r.randrange(0, 3))]
        else:
            kids = [gen_tree(r, budget, depth + 1, pool) for _ in range(r.randrange(0, 3))]
        node = ['obj', kind, 'n%d' % r.randrange(100), kids]
        pool[0] += 1
    elif k < 0.78:
        node = ['list', [gen_tree(r, budget, depth + 1, pool) for _ in range(r.randrange(0, 4))]]
        pool[0] += 1
    elif k < 0.88:
        node = ['tuple', [gen_tree(r, budget, depth + 1, pool) for _ in range(r.randrange(0, 3))]]
        pool[0] += 1
    elif k < 0.95:
        node = ['dict', [['k%d' % j, gen_tree(r, budget, depth + 1, pool)]
                         for j in range(r.randrange(0, 4))]]
        pool[0] += 1
    else:
        # other bundled container printers; 'objkeys' is a dict whose KEYS are harness objects
        kind = r.choice(['deque', 'odict', 'ns', 'ntuple', 'objkeys', 'ddict', 'chainmap', 'ndict', 'ndict', 'nlist',
                         'dholder', 'dholder'])
        node = [kind, [gen_tree(r, budget, depth + 1, pool) for _ in range(r.randrange(1, 3))]]
        pool[0] += 1
    x = r.random()
    if node[0] != 'ref':
        if x < 0.15:
            node = ['c', 'c%d' % r.randrange(9), node]
        elif x < (0.40 if node[0] not in ('leaf',) else 0.20):
            node = ['tc', 'tc%d' % r.randrange(9), node]
    return node


OCC = []          # (id of a harness object, visibility of this occurrence: True / False / None=unknown)
INVOKED = set()   # ids of harness objects whose printer ran during the current print


def _vis(vis, i, limit):
    """visibility of the i-th element of a plain list / tuple / dict under max_seq_len=limit"""
    if vis is False:
        return False
    if limit is not None and i >= limit:
        return False
    return vis


def build(node, env, vis=True):
    t = node[0]
    limit = SETTINGS.get('max_seq_len')
    if t == 'leaf':
        return node[1]
    if t == 'ref':
        v = env[node[1] % len(env)] if env else 0
        if isinstance(v, Node):
            OCC.append((id(v), vis))
        return v
    if t == 'c':
        return P.comment(build(node[2], env, vis), node[1])
    if t == 'tc':
        return P.trailing_comment(build(node[2], env, vis), node[1])
    if t not in ('obj', 'list', 'tuple', 'dict') and vis is not False:
        vis = None      # below other container kinds: no claim about what is shown
    if t == 'obj':
        v = KINDS[node[1]](node[2], [build(k, env, vis) for k in node[3]])
        OCC.append((id(v), vis))
    elif t == 'list':
        v = [build(k, env, _vis(vis, i, limit)) for i, k in enumerate(node[1])]
    elif t == 'tuple':
        v = tuple(build(k, env, _vis(vis, i, limit)) for i, k in enumerate(node[1]))
    elif t == 'dict':
        v = {k: build(x, env, _vis(vis, i, limit)) for i, (k, x) in enumerate(node[1])}
    elif t == 'dholder':
        kids = [build(k, env, vis) for k in node[1]]
        v = DHolder(kids[0], len(kids)) if len(kids) % 2 else DHolder(n=len(kids))
    elif t == 'ndict':
        v = NDict(zeta=1, alpha=2)
        for i, k in enumerate(node[1]):
            v['c%d' % i] = build(k, env, vis)
    elif t == 'nlist':
        v = NList(build(k, env, vis) for k in node[1])
    elif t == 'deque':
        v = collections.deque(build(k, env, vis) for k in node[1])
    elif t == 'odict':
        v = collections.OrderedDict(('o%d' % i, build(k, env, vis)) for i, k in enumerate(node[1]))
    elif t == 'ddict':
        v = collections.defaultdict(list, {('d%d' % i): build(k, env, vis) for i, k in enumerate(node[1])})
    elif t == 'chainmap':
        v = collections.ChainMap({('m%d' % i): build(k, env, vis) for i, k in enumerate(node[1])}, {'z': 0})
    elif t == 'ns':
        v = types.SimpleNamespace(**{('a%d' % i): build(k, env, vis) for i, k in enumerate(node[1])})
    elif t == 'ntuple':
        kids = [build(k, env, vis) for k in node[1]]
        v = (NT1 if len(kids) == 1 else NT2)(*kids[:2])
    elif t == 'objkeys':
        v = {}
        for i, k in enumerate(node[1]):
            key = build(k, env, vis)
            try:
                hash(key)
            except TypeError:
                key = 'unhashable%d' % i
            v[key] = i
    else:
        raise core.HarnessError('bad node %r' % (node,))
    env.append(v)
    return v


def generate(rng, idx, tier):
    for _ in range(20):
        budget = [rng.randrange(1, 13)]
        tree = gen_tree(rng, budget, 0, [0])
        if 'obj' in repr(tree):
            break
    excs = sorted(EXC)
    return dict(tree=tree, width=rng.choice([20, 40, 79]), mode='enumerate',
                exc_seed=rng.randrange(1 << 30), pairs=3 if tier == 'quick' else 8,
                bundled=rng.choice(['none', 'none', 'none', 'containers', 'containers', 'all']),
                settings=rng.choice([{}, {}, {}, {'depth': 3}, {'max_seq_len': 2}, {'sort_dict_keys': True},
                                     {'indent': 2, 'ribbon_width': 30}]))


# ------------------------------------------------------------------ execution
def _print(v, width, plan, settings=None):
    PLAN.clear()
    PLAN.update(plan)
    COUNT[0] = 0
    del FIRED[:]
    with warnings.catch_warnings(record=True) as w:
        warnings.simplefilter('always')
        try:
            out = ['ok', P.pformat(v, width=width, **(SETTINGS if settings is None else settings))]
        except Exception as e:
            out = ['raised', type(e).__name__, str(e)[:200]]
    PLAN.clear()
    ws = [[x.category.__name__, issubclass(x.category, UserWarning), str(x.message)] for x in w]
    return out, ws, COUNT[0], list(FIRED)


def _check_fault(v, width, faults, base, other, other_base):
    """faults: list of [i, phase, kind, arg]. Returns (violation dict or None, fired count, info)."""
    ref_plan = {f[0]: (f[1], 'repr', None) for f in faults}
    bad_plan = {f[0]: (f[1], f[2], f[3], f[4] if len(f) > 4 else None) for f in faults}
    ref, rw, _, rfired = _print(v, width, ref_plan)
    got, gw, _, gfired = _print(v, width, bad_plan)
    again, aw, _, _ = _print(v, width, {})
    oth, ow, _, _ = _print(other, 79, {}, {})
    info = dict(fired=len(gfired), ref_fired=len(rfired))
    nondoc = any(f[2] == 'nondoc' for f in faults)
    detail = dict(faults=faults, got=got, ref=ref, fired=gfired)

    def viol(cls, sig, **kw):
        d = dict(detail)
        d.update(kw)
        return dict(cls=cls, signature=sig, detail=d)

    if ref[0] != 'ok':
        raise core.HarnessError('reference run raised: %r' % (ref,))
    if len(faults) == 1 and faults[0][2] == 'raise' and SHARED_TREE[0]:
        # what ONE healthy invocation returns must appear once: a second occurrence of the same object is
        # another invocation (independent of the faulty run, so a bug shared by both runs cannot cancel out)
        f = faults[0]
        sen, sw, _, sfired = _print(v, width, {f[0]: (f[1], 'sentinel', None)})
        # (zero is legitimate: a commented dict value is rendered for a flat and for a broken variant,
        # and only one of them reaches the output)
        if sen[0] == 'ok' and sfired and sen[1].count('SENTINEL_%d_' % f[0]) > 1:
            return viol('invocation_result_reused', 'sentinel_count_%d' % sen[1].count('SENTINEL_%d_' % f[0]),
                        sentinel_run=sen[1][:600]), info
    if again != base[0]:
        return viol('later_call_affected', 'same_value', again=again, base=base[0]), info
    if aw != base[1]:
        return viol('later_call_affected', 'warnings_of_same_value', warnings=[m[2][:200] for m in aw],
                    baseline=[m[2][:200] for m in base[1]]), info
    if ow:
        return viol('later_call_affected', 'warnings_of_other_value', warnings=[m[2][:200] for m in ow]), info
    if oth != other_base:
        return viol('later_call_affected', 'other_value', again=oth, base=other_base), info
    if not gfired:
        return None, info
    if nondoc:
        if got[0] == 'raised':
            if got[1] != 'ValueError':
                return viol('nondoc_not_reported', 'raised_' + got[1]), info
            return None, info
        if not any('ValueError' in m[2] for m in gw):
            return viol('nondoc_not_reported', 'silent'), info
        return None, info
    if got[0] != 'ok':
        return viol('raised', got[1]), info
    if got != ref:
        return viol('text_differs', 'text'), info
    # warnings: exactly one more per fired fault, a UserWarning naming the printer
    rest = list(gw)
    for m in rw:
        if m in rest:
            rest.remove(m)
        else:
            return viol('warnings_differ', 'missing_reference_warning', warnings=gw, ref_warnings=rw), info
    if len(rest) != len(gfired):
        return viol('warnings_differ', 'count', warnings=[m[2][:200] for m in rest], expected=len(gfired)), info
    if REPEAT[0] and len(faults) == 1:
        # the very same failing print seven more times: same text, same warnings every time
        REPEAT[0] = False
        for rep_no in range(7):
            g2, w2, _, f2 = _print(v, width, bad_plan)
            if g2 != got or [m[2] for m in w2] != [m[2] for m in gw]:
                return viol('repeated_failure_treated_differently', 'repeat_%d' % (rep_no + 2), repeat_text=g2,
                            repeat_warnings=[m[2][:160] for m in w2], first_warnings=[m[2][:160] for m in gw]), info
        info['repeated'] = 1
    names = sorted(n for _, n in gfired)
    for m in rest:
        if not m[1]:
            return viol('warnings_differ', 'not_userwarning', warnings=rest), info
    # each extra warning must name a distinct failing printer (any assignment will do: a warning
    # may quote further printers through chained exception context)
    ok = any(all(re.search(r'\b%s\b' % re.escape(n), m[2]) for n, m in zip(perm, rest))
             for perm in set(itertools.permutations(names)))
    if not ok:
        return viol('warnings_differ', 'printer_not_named',
                    warnings=[m[2][:400] for m in rest], printers=names), info
    return None, info


def execute(spec):
    sys.setrecursionlimit(3000)
    tree = spec['tree']
    wrapped = 0
    if spec.get('bundled', 'none') != 'none':
        wrapped = wrap_bundled(BUNDLED_CONTAINERS + (BUNDLED_LEAVES if spec['bundled'] == 'all' else ()))
    env = []
    del OCC[:]
    SETTINGS.clear()
    SETTINGS.update(spec.get('settings') or {})
    v = build(tree, env)
    REPRS.clear()
    for x in env:
        REPRS[id(x)] = repr(x)
    SETTINGS.clear()
    SETTINGS.update(spec.get('settings') or {})
    SHARED_TREE[0] = "'ref'" in repr(tree)
    REPEAT[0] = True
    width = spec['width']
    other = {'unrelated': [1, NT('z', [2])], 'k': (3,)}
    if spec.get('prefault'):
        # the very first print of this process is a FAILING one (caches filled during a failure must not stick)
        pf = spec['prefault']
        _print(v, width, {pf[0]: (pf[1], 'raise', pf[2], None)})
    INVOKED.clear()
    base = _print(v, width, {})
    if spec.get('prefault'):
        return dict(steps=1, counters={}, nontrivial=False, digest=core.digest_of([tree, width, 'prefault']),
                    base_text=base[0], base_warnings=[w[2] for w in base[1]], **{'class': None})
    if 'max_seq_len' in SETTINGS and 'depth' not in SETTINGS and "'ref'" not in repr(tree):
        # elements beyond max_seq_len are not shown, so their printers have no business running (and failing).
        # (trees with shared references are left out: a reference at a visible position shows a subtree that
        # was built under a hidden one)
        seen = {}
        for oid, vis in OCC:
            seen.setdefault(oid, []).append(vis)
        hidden = [oid for oid, vs in seen.items() if all(x is False for x in vs)]
        if hidden:
            counters_hidden = len(hidden)
            bad = [oid for oid in hidden if oid in INVOKED]
            if bad:
                return dict(steps=1, counters={'hidden_objects': counters_hidden}, nontrivial=False,
                            digest=core.digest_of([tree, width]),
                            **{'class': 'hidden_element_printed', 'signature': 'max_seq_len',
                               'detail': dict(tree=tree, settings=dict(SETTINGS), hidden_objects=len(hidden),
                                              printed_anyway=len(bad), text=base[0][1][:600] if base[0][0] == 'ok' else base[0]),
                               'replay_spec': dict(spec, mode='base_only')})
    other_base = _print(other, 79, {}, {})[0]
    if base[0][0] != 'ok' or other_base[0] != 'ok':
        raise core.HarnessError('fault-free print raised: %r' % (base[0],))
    n = base[2]
    counters = {}
    res = dict(steps=0, counters=counters, nontrivial=False, digest=core.digest_of([tree, width]),
               **{'class': None})
    has_tc = "'tc'" in repr(tree)

    def handle(faults):
        vio, info = _check_fault(v, width, faults, base, other, other_base)
        for f in faults:
            counters['configured_%s_%s' % (f[2], 'entry' if f[1] == 0 else 'after')] = \
                counters.get('configured_%s_%s' % (f[2], 'entry' if f[1] == 0 else 'after'), 0) + 1
        counters['fired'] = counters.get('fired', 0) + info['fired']
        counters['faults_repeated_8_times'] = counters.get('faults_repeated_8_times', 0) + info.get('repeated', 0)
        counters['fault_cases'] = counters.get('fault_cases', 0) + 1
        if info['fired']:
            if any(f[0] > 0 for f in faults) or has_tc:
                res['nontrivial'] = True
        if vio:
            res['class'] = vio['cls']
            res['signature'] = vio['signature']
            res['detail'] = dict(vio['detail'], tree=tree, width=width, base=base[0][1][:600])
            res['replay_spec'] = dict(tree=tree, width=width, mode='explicit', faults=faults,
                                      bundled=spec.get('bundled', 'none'), settings=spec.get('settings') or {})
            return True
        return False

    counters['invocations'] = n
    if wrapped:
        counters['trees_with_bundled_printers_instrumented'] = 1
        counters['bundled_printers_wrapped'] = wrapped
    elif spec.get('bundled', 'none') != 'none':
        counters['bundled_seam_unavailable'] = 1
    if has_tc:
        counters['trees_with_trailing_comment'] = 1
    if spec['mode'] == 'explicit':
        handle([list(f) for f in spec['faults']])
        res['steps'] = 1
        return res
    r = random.Random(spec['exc_seed'])
    names = sorted(EXC)
    order = list(range(n))
    if n > MAX_SITES:
        # very large trees: all sites still get one fault each, a seeded subset gets the full product
        counters['trees_above_site_cap'] = 1
    full = set(order if n <= MAX_SITES else r.sample(order, MAX_SITES))
    for i in order:
        for phase in (0, 1):
            excs = ['TypeError'] + r.sample([x for x in names if x != 'TypeError'], 2)
            if i not in full:
                excs = [r.choice(excs)] if phase == i % 2 else []
            for exc in excs:
                if handle([[i, phase, 'raise', exc, r.randrange(len(PAYLOADS)) if r.random() < 0.5 else None]]):
                    return res
        if i not in full:
            continue
        if handle([[i, r.choice((0, 1)), 'nondoc', r.choice(sorted(NONDOCS))]]):
            return res
    for _ in range(spec.get('pairs', 3)):
        if n < 2:
            break
        i, j = sorted(r.sample(range(n), 2))
        if handle([[i, r.choice((0, 1)), 'raise', r.choice(names), r.randrange(len(PAYLOADS))],
                   [j, r.choice((0, 1)), 'raise', r.choice(names), None]]):
            return res
        counters['pair_cases'] = counters.get('pair_cases', 0) + 1
        a, b = sorted(r.sample(range(n), 2))
        mixed = [[a, r.choice((0, 1)), 'nondoc', r.choice(sorted(NONDOCS))], [b, 0, 'raise', r.choice(names), None]]
        if r.random() < 0.5:
            mixed = [[a, 1, 'nondoc', r.choice(sorted(NONDOCS))], [b, r.choice((0, 1)), 'raise', r.choice(names), None]]
        if handle(mixed):
            return res
        counters['mixed_pair_cases'] = counters.get('mixed_pair_cases', 0) + 1
    res['base_text'] = base[0]
    res['base_warnings'] = [w[2] for w in base[1]]
    res['steps'] = counters.get('fault_cases', 0)
    res['sample'] = dict(invocations=n, width=width, fault_cases=counters.get('fault_cases', 0),
                         text=base[0][1][:300])
    return res


def run(spec):
    if spec.get('mode') == 'prefault_compare':
        k1, r1 = core.in_fork(lambda: execute(dict(spec, mode='prefault', prefault=None)), RUN_TIMEOUT)
        k2, r2 = core.in_fork(lambda: execute(dict(spec, mode='prefault')), RUN_TIMEOUT)
        if k1 != 'ok' or k2 != 'ok':
            return (k1, r1) if k1 != 'ok' else (k2, r2)
        out = dict(steps=1, counters={}, nontrivial=False, digest=core.digest_of(spec['tree']), **{'class': None})
        if r1.get('base_text') != r2.get('base_text') or r1.get('base_warnings') != r2.get('base_warnings'):
            out.update({'class': 'later_call_affected'}, signature='after_failing_first_print',
                       detail=dict(after_failure=r2.get('base_text'), never_failed=r1.get('base_text')))
        return 'ok', out
    kind, res = core.in_fork(lambda: execute(spec), RUN_TIMEOUT)
    if kind == 'ok' and not res.get('class') and spec['mode'] == 'enumerate' and 'base_text' in res \
            and int(core.digest_of(spec['tree'])[-1], 16) % 3 == 0 \
            and not (spec.get('settings') or {}).get('sort_dict_keys'):
        # (not with sort_dict_keys: keys that cannot be compared are ordered by id(), and the two processes
        # compared here build the tree separately)
        # one tree in three: in a pristine process, let the FIRST print be a failing one; the fault-free print
        # that follows must equal the fault-free print of a process that never saw a failure
        n = res['counters'].get('invocations', 1)
        for k in sorted(set([0, 1, n // 2, max(0, n - 1)])):
            sp2 = dict(spec, prefault=[k, 0, 'ValueError'])
            k2, r2 = core.in_fork(lambda: execute(sp2), RUN_TIMEOUT)
            if k2 != 'ok':
                return k2, r2
            res['counters']['first_print_failing_cases'] = res['counters'].get('first_print_failing_cases', 0) + 1
            if r2.get('base_text') != res['base_text'] or r2.get('base_warnings') != res['base_warnings']:
                res['class'] = 'later_call_affected'
                res['signature'] = 'after_failing_first_print'
                res['detail'] = dict(tree=spec['tree'], prefault=sp2['prefault'], after_failure=r2.get('base_text'),
                                     never_failed=res['base_text'], warnings_after=r2.get('base_warnings'))
                res['replay_spec'] = dict(spec, mode='prefault_compare', prefault=sp2['prefault'])
                res.pop('base_text', None)
                return kind, res
    if kind == 'ok':
        res.pop('base_text', None)
        res.pop('base_warnings', None)
    if kind != 'ok' or not res.get('class') or spec['mode'] == 'explicit':
        return kind, res
    # confirm the single fault in isolation (fresh pristine fork); otherwise the failure needs the
    # earlier faults of the enumeration and the whole enumeration is the replay
    k2, r2 = core.in_fork(lambda: execute(res['replay_spec']), RUN_TIMEOUT)
    if k2 == 'ok' and r2.get('class') == res['class']:
        return kind, res
    res['replay_spec'] = spec
    res['signature'] = 'needs_earlier_faults:' + str(res.get('signature'))
    return kind, res


def on_timeout(spec):
    return None


def normalise(spec):
    if 'obj' not in repr(spec['tree']):
        return None
    return spec


def _subtrees(node, path=()):
    """yield (path, replacement) candidates that make the tree smaller."""
    t = node[0]
    if t in ('c', 'tc'):
        yield path, node[2]                       # drop the wrapper
        yield from _subtrees(node[2], path + (2,))
    elif t == 'obj':
        for i in range(len(node[3])):
            yield path, ['obj', node[1], node[2], node[3][:i] + node[3][i + 1:]]
        for i, k in enumerate(node[3]):
            yield from _subtrees(k, path + (3, i))
    elif t in ('list', 'tuple', 'deque', 'odict', 'ns', 'ntuple', 'objkeys', 'ddict', 'chainmap', 'ndict', 'nlist', 'dholder'):
        for i in range(len(node[1])):
            if t == 'ntuple' and len(node[1]) <= 1:
                break
            yield path, [t, node[1][:i] + node[1][i + 1:]]
        for i, k in enumerate(node[1]):
            yield from _subtrees(k, path + (1, i))
    elif t == 'dict':
        for i in range(len(node[1])):
            yield path, ['dict', node[1][:i] + node[1][i + 1:]]
        for i, (kk, k) in enumerate(node[1]):
            yield from _subtrees(k, path + (1, i, 1))


def _replace(node, path, new):
    if not path:
        return new
    node = list(node)
    node[path[0]] = _replace(node[path[0]], path[1:], new)
    return node


def shrinkers(spec):
    def smaller_trees(sp):
        # hoist any subtree to the root, or delete one child somewhere; the fault indices are
        # re-enumerated (mode=enumerate) because invocation numbers shift
        def walk(node):
            yield node
            t = node[0]
            if t in ('c', 'tc'):
                yield from walk(node[2])
            elif t == 'obj':
                for k in node[3]:
                    yield from walk(k)
            elif t in ('list', 'tuple', 'deque', 'odict', 'ns', 'ntuple', 'objkeys', 'ddict', 'chainmap', 'ndict', 'nlist', 'dholder'):
                for k in node[1]:
                    yield from walk(k)
            elif t == 'dict':
                for _, k in node[1]:
                    yield from walk(k)
        seen = 0
        for sub in list(walk(sp['tree']))[1:]:
            if 'obj' in repr(sub) and "'ref'" not in repr(sub):
                seen += 1
                if seen > 12:
                    break
                yield dict(sp, tree=sub, mode='enumerate', exc_seed=sp.get('exc_seed', 0), pairs=0)
        for path, new in list(_subtrees(sp['tree']))[:60]:
            yield dict(sp, tree=_replace(sp['tree'], path, new), mode='enumerate',
                       exc_seed=sp.get('exc_seed', 0), pairs=0)
    return [('alts', smaller_trees)]


def extra_evidence(st):
    c = st.counters
    return dict(fault_kinds={
        'raise_at_entry (configured)': c.get('configured_raise_entry', 0),
        'raise_after_children (configured)': c.get('configured_raise_after', 0),
        'non_doc_return (configured)': c.get('configured_nondoc_entry', 0) + c.get('configured_nondoc_after', 0),
        'faults fired (all kinds)': c.get('fired', 0),
        'fault pairs': c.get('pair_cases', 0)},
        exception_classes=sorted(EXC), payloads=PAYLOADS, nondoc_values=sorted(NONDOCS),
        exhaustive_per_tree='all single faults for up to %d sites per tree' % MAX_SITES,
        simulated_time='fault cases executed (field simulated_steps)')
