"""C15 - printer dispatch follows the class hierarchy for every registration history.

Histories of {register by class, by name, by predicate, print, print nested, is_registered
with every flag combination, clear dispatch cache} on a fresh class lattice with single
and multiple inheritance and a built-in base, each in a pristine fork, checked operation
by operation against a small reference model (RegistryModel).
"""
import collections
import itertools
import re
import weakref
import sys
import warnings

from simkit import core

ID = 'C15'
LEVEL = 'exploration'
RUN_TIMEOUT = 60.0
CHUNK = 100
TIERS = {'quick': dict(runs=60000, budget_s=240), 'thorough': dict(runs=2500000, budget_s=1500)}
REAL = ['prettyprinter/* (tree under check)', 'functools.singledispatch']
STUBS = ['harness class lattice; printers that return a unique tag; isinstance predicates']
ASSUMPTIONS = [
    'which operations move a by-name registration to the live registry is only partly specified: '
    'answers of is_registered(check_deferred=False) that depend on an entry in state "unknown" are '
    'not checked (counted as indeterminate)',
    'is_registered is modelled for class-kind registrations only (a predicate cannot be evaluated '
    'for a type)',
]

P = PP = None
NAMES = ['A', 'B', 'C', 'D', 'E', 'F', 'G', 'L', 'M', 'N1', 'N2', 'R', 'S', 'T', 'X', 'Y', 'Z', 'IC', 'IPar']
SMALL = ['A', 'B', 'C']
FLAGS = [(cs, cd, rd) for cs in (False, True) for (cd, rd) in ((True, True), (True, False), (False, False))]
PENDING, UNKNOWN, PROMOTED = 0, 1, 2

# reduced alphabet for the exhaustively enumerated prefix of the seed space
ENUM_OPS = ([['rc', c] for c in SMALL] + [['rn', c] for c in SMALL] + [['pr', c, False] for c in SMALL] +
            [['pr', c, 'list2'] for c in SMALL] +
            [['ir', c, list(f)] for c in SMALL for f in FLAGS] + [['rp', 'B'], ['rp', 'A']])
ENUM_LEN = {'quick': 3, 'thorough': 4}
RULE = ('run index < K enumerates ALL histories of length <= 3 (thorough: 4) over a reduced alphabet of %d '
        'operations on the chain A<-B<-C, each followed by a probing suffix (non-promoting is_registered '
        'queries and a print of every class); further indices are seeded random histories of length 3-30 '
        'over the full lattice A; B(A); C(B); D(A); E(B,D); F; G(F); L(list); M(L); two nested classes '
        'Outer1.N / Outer2.N sharing their __name__; with a per-run '
        'operation mix. distinct = distinct operation list; non-trivial = distinct AND at least one '
        'registration is followed by a print or query it can influence.' % len(ENUM_OPS))


def enum_count(tier):
    n = len(ENUM_OPS)
    return sum(n ** k for k in range(1, ENUM_LEN[tier] + 1))


def setup():
    global P, PP
    P, PP = core.import_package()
    import prettyprinter.extras.ipython_repr_pretty  # noqa: imported (not installed) before forking: it is slow to import


def lattice():
    mod = 'verif_lattice'

    def mk(name, *bases, qualname=None):
        c = type(name, bases or (object,), {'__repr__': lambda s: 'REPR<%s>' % type(s).__qualname__,
                                            '_only_on': _OnlyOn()})
        c.__module__ = mod
        c.__qualname__ = qualname or name
        return c
    A = mk('A')
    B = mk('B', A)
    C = mk('C', B)
    D = mk('D', A)
    E = mk('E', B, D)
    F = mk('F')
    G = mk('G', F)
    L = mk('L', list)
    M = mk('M', L)
    # two nested classes sharing their __name__ (qualified names differ)
    N1 = mk('N', qualname='Outer1.N')
    N2 = mk('N', qualname='Outer2.N')
    # a mixin T listed FIRST over a 'solid' base: a builtin (X), a class with __slots__ (Y), an exception (Z)
    T = mk('T')
    Sl = type('Sl', (object,), {'__slots__': ('a',), '__repr__': lambda s: 'REPR<Sl>'})
    Sl.__module__ = mod
    X = mk('X', T, dict)
    Y = mk('Y', T, Sl)
    Z = mk('Z', T, ValueError)
    # IPython protocol (bundled extra, installed first): IC(B) and IPar implement _repr_pretty_; IPar prints an IC
    def _rp_child(self, p, cycle):
        p.text('RP_IC(')
        p.text('0')
        p.text(')')

    def _rp_parent(self, p, cycle):
        p.text('IPar(')
        p.pretty(self.child)
        p.text(')')
    IC = mk('IC', B)
    IC._repr_pretty_ = _rp_child
    IPar = mk('IPar')
    IPar._repr_pretty_ = _rp_parent
    IPar.child = IC()
    # R and its subclass S use pretty_repr as their __repr__
    R = mk('R')
    S = mk('S', R)
    R.__repr__ = P.pretty_repr
    S.__repr__ = P.pretty_repr
    return dict(A=A, B=B, C=C, D=D, E=E, F=F, G=G, L=L, M=M, N1=N1, N2=N2, R=R, S=S, T=T, X=X, Y=Y, Z=Z, IC=IC, IPar=IPar)


BUNDLED = (list, dict, BaseException)


class _OnlyOn:
    """descriptor: instance._only_on[t] is True for instances of t and raises KeyError otherwise"""

    def __get__(self, obj, owner):
        return _Lookup(obj)


class _Lookup:
    def __init__(self, obj):
        self.obj = obj

    def __getitem__(self, t):
        if isinstance(self.obj, t):
            return True
        raise KeyError('sloppy predicate applied to a foreign value')
ADDR = re.compile(r'0x[0-9a-f]+')     # default object reprs (classes using pretty_repr, unregistered)


def _norm(t):
    return re.sub(r'\s+', '', ADDR.sub('0xADDR', t))


class _IsInstance:
    def __init__(self, t):
        self.t = t

    def accept(self, v):
        return isinstance(v, self.t)


NO, MAYBE, YES = 0, 1, 2


class Model:
    def __init__(self, base):
        self.reg = {}        # cls -> dict(tag, byname, state): the LATEST class-kind registration
        self.live = {}       # cls -> NO/MAYBE/YES: is the class present in the live registry?
        self.preds = []
        self.base = base     # cls -> text with no harness registration

    def winner(self, c):
        for k in c.__mro__[:-1]:
            if k in self.reg:
                return k
            if k in BUNDLED:
                return None
        return None

    def has_bundled(self, c):
        return any(k in BUNDLED for k in c.__mro__)

    def tag(self, c):
        k = self.winner(c)
        if k is not None:
            return self.reg[k]['tag']
        if not self.has_bundled(c):
            for fn, tag in self.preds:
                if fn == 'ipython_protocol':
                    # the extra's predicate (registered before everything else) accepts what implements _repr_pretty_
                    if c.__name__ == 'IC':
                        return 'RP_IC(0)'
                    if c.__name__ == 'IPar':
                        return 'IPar(%s)' % self.tag(self.classes['IC'])
                    continue
                if isinstance(fn, tuple):
                    # a predicate that raises when it is REACHED with a foreign value: contained, repr is used
                    if issubclass(c, fn[1]):
                        return tag
                    return self.base[c]
                if fn(c):
                    return tag
        return self.base[c]

    def _promoted(self, k):
        self.reg[k]['state'] = PROMOTED
        self.live[k] = YES

    def touch(self, c, cs):
        """an operation that may move by-name entries of c / its ancestors to the live registry"""
        ks = c.__mro__[:-1] if cs else (c,)
        for k in ks:
            e = self.reg.get(k)
            if e and e['byname'] and e['state'] == PENDING:
                e['state'] = UNKNOWN
                self.live[k] = max(self.live.get(k, NO), MAYBE)
        e = self.reg.get(c)
        if e and e['byname']:
            self._promoted(c)

    def after_print(self, c):
        self.touch(c, True)
        k = self.winner(c)
        if k is not None and self.reg[k]['byname']:
            self._promoted(k)

    def isreg(self, c, cs, cd, rd):
        def has(k):
            if k in BUNDLED:
                return True
            e = self.reg.get(k)
            if not e:
                return False
            if cd:
                return True
            return {NO: False, MAYBE: None, YES: True}[self.live.get(k, NO)]
        vals = [has(c)] + ([has(k) for k in c.__mro__[1:-1]] if cs else [])
        res = True if True in vals else (None if None in vals else False)
        if rd:
            self.touch(c, cs)
        return res


# ways an instance reaches the printer: bare, or as an element of a bundled container
NEST_TEXT = {False: '%s', None: '%s', True: '[%s]', 'list2': '[%s, %s]', 'tuple2': '(%s, 1)',
             'dictval': "{'k': %s}", 'deep': '[[%s], %s]', 'commented': '%s  # note',
             'odictval': "collections.OrderedDict([('k', %s)])", 'dequeel': 'collections.deque([%s, 1])',
             'tcommented': '%s', 'tcommented_el': '[1, %s]'}


def _nest(form, c):
    if not form:
        return c()
    if form is True:
        return [c()]
    if form == 'list2':
        return [c(), c()]
    if form == 'tuple2':
        return (c(), 1)
    if form == 'dictval':
        return {'k': c()}
    if form == 'deep':
        return [[c()], c()]
    if form == 'commented':
        return P.comment(c(), 'note')
    if form == 'odictval':
        return collections.OrderedDict(k=c())
    if form == 'dequeel':
        return collections.deque([c(), 1])
    if form == 'tcommented':
        return P.trailing_comment(c(), 'tc')
    if form == 'tcommented_el':
        return [1, P.trailing_comment(c(), 'tc')]
    raise core.HarnessError('bad nesting %r' % (form,))


def key(c):
    return c.__module__ + '.' + c.__qualname__


# ------------------------------------------------------------------ generation
def _enum_history(idx, tier):
    n = len(ENUM_OPS)
    for k in range(1, ENUM_LEN[tier] + 1):
        if idx < n ** k:
            ops = []
            for _ in range(k):
                ops.append(list(ENUM_OPS[idx % n]))
                idx //= n
            return ops
        idx -= n ** k
    return None


PROBE = ([['ir', c, [True, True, False]] for c in SMALL] + [['ir', c, [False, False, False]] for c in SMALL] +
         [['pr', c, False] for c in ('C', 'A', 'B')] + [['ir', c, [True, False, False]] for c in SMALL])


def generate(rng, idx, tier):
    ops = _enum_history(idx, tier)
    if ops is not None:
        ops = ops + [list(o) for o in PROBE]
        n = 0
        for o in ops:
            if o[0] in ('rc', 'rn', 'rp'):
                n += 1
                o.append('T%d' % n)
        return dict(ops=ops, enumerated=True)
    w = dict(repr=rng.choice([0, 0, 1]), rc=rng.choice([1, 2, 3]), rn=rng.choice([1, 2, 4]), rp=rng.choice([0, 1, 2]),
             pr=rng.choice([2, 4, 6]), ir=rng.choice([1, 3, 5]), cc=rng.choice([0, 1]))
    kinds = [k for k, n in sorted(w.items()) for _ in range(n)]
    names = NAMES if rng.random() < 0.7 else rng.sample(NAMES, rng.randrange(2, 6))
    ops = []
    for step in range(rng.randrange(3, 31)):
        k = rng.choice(kinds)
        c = rng.choice(names)
        tag = 'T%d' % (step + 1)
        if k in ('rc', 'rn'):
            ops.append([k, c, tag] + (['again'] if rng.random() < 0.25 else []))
        elif k == 'rp':
            ops.append(['rp', c if rng.random() < 0.8 else None, tag,
                        rng.choice(['fresh', 'fresh', 'shared', 'shared', 'shared', 'sloppy'])])
        elif k == 'repr':
            ops.append(['repr', rng.choice(['R', 'S'])])
        elif k == 'pr':
            ops.append(['pr', c, rng.choice([False, False, False, True, 'list2', 'tuple2', 'dictval', 'deep', 'commented',
                                            'odictval', 'dequeel', 'long', 'tcommented', 'tcommented_el'])])
        elif k == 'ir':
            if rng.random() < 0.05:
                ops.append(['ir', c, [rng.random() < 0.5, False, True]])
            else:
                ops.append(['ir', c, list(rng.choice(FLAGS))])
        else:
            ops.append(['cc'])
    return dict(ops=ops, enumerated=False)


# ------------------------------------------------------------------ execution
def execute(spec):
    warnings.simplefilter('ignore')
    from prettyprinter import register_pretty, is_registered, pformat
    P.install_extras(include=['ipython_repr_pretty'], raise_on_error=True)
    cls = lattice()
    base = {}
    for n, c in cls.items():
        base[c] = pformat(c())
    m = Model(base)
    m.classes = cls
    m.preds.append(('ipython_protocol', None))
    counters = {}
    res = dict(steps=len(spec['ops']), counters=counters, nontrivial=False,
               digest=core.digest_of(spec['ops']), **{'class': None})
    trace = []
    registered = False
    shared_preds = {}
    last_fn = {}
    seen_pred_targets = set()

    def bump(k):
        counters[k] = counters.get(k, 0) + 1

    def fail(cls_, sig, **detail):
        res['class'] = cls_
        res['signature'] = sig
        res['detail'] = dict(detail, trace=trace)
        return res

    for op in spec['ops']:
        k = op[0]
        bump('op_' + k)
        if k in ('rc', 'rn'):
            c = cls[op[1]]
            tag = op[2]
            fn = (lambda v, ctx, tag=tag: tag)
            if len(op) > 3 and op[3] == 'again' and (k, c) in last_fn and last_fn[(k, c)][0]() is not None:
                # the very same function object registered once more (module imported twice, ...)
                fn, tag = last_fn[(k, c)][0](), last_fn[(k, c)][1]
                bump('same_function_registered_again')
            # remembered weakly: the harness must not be what keeps a registered printer alive
            last_fn[(k, c)] = (weakref.ref(fn), tag)
            if k == 'rn':
                register_pretty(key(c))(fn)
                m.reg[c] = dict(tag=tag, byname=True, state=PENDING)
                if m.live.get(c):
                    bump('byname_over_live_entry')
            else:
                register_pretty(c)(fn)
                prev = m.reg.get(c)
                if prev and prev['byname'] and prev['state'] != PROMOTED:
                    bump('direct_over_pending_byname')
                m.reg[c] = dict(tag=tag, byname=False, state=PROMOTED)
                m.live[c] = YES
            registered = True
            trace.append(op)
        elif k == 'rp':
            tag = op[2]
            fresh = len(op) > 3 and op[3] == 'fresh'
            if op[1] is None:
                register_pretty(predicate=lambda v: False)(lambda v, ctx, tag=tag: tag)
                m.preds.append((lambda kls: False, tag))
            elif len(op) > 3 and op[3] == 'sloppy':
                # accepts instances of t, RAISES for anything else (it looks at an attribute only they have)
                t = cls[op[1]]
                register_pretty(predicate=lambda v, t=t: v._only_on[t])(lambda v, ctx, tag=tag: tag)
                m.preds.append((('sloppy', t), tag))
                bump('sloppy_predicates')
            else:
                t = cls[op[1]]
                if fresh:
                    pred = (lambda v, t=t: isinstance(v, t))
                else:
                    # the same predicate registered again: a new bound method object that
                    # compares equal to (but is not) the one registered before
                    pred = shared_preds.setdefault(t, _IsInstance(t)).accept
                    bump('predicate_reregistered' if t in seen_pred_targets else 'predicate_first')
                    seen_pred_targets.add(t)
                register_pretty(predicate=pred)(lambda v, ctx, tag=tag: tag)
                m.preds.append((lambda kls, t=t: issubclass(kls, t), tag))
            registered = True
            trace.append(op)
        elif k == 'pr':
            c = cls[op[1]]
            nested = op[2]
            exp = m.tag(c)
            if nested in ('tcommented', 'tcommented_el') and (m.has_bundled(c) or c.__name__ in ('R', 'S', 'IC', 'IPar')):
                nested = False      # bundled printers show the comment; keep to printers that cannot
            if nested == 'long':
                # >= 40 elements mixing the class with every other class of the lattice
                order = [c] + [cls[n] for n in sorted(cls)]
                elems = [order[i % len(order)] for i in range(40)]
                exp_long = '[' + ', '.join(m.tag(k) for k in elems) + ']'
                try:
                    got = pformat([k() for k in elems])
                except Exception as e:
                    trace.append(op + ['RAISED ' + repr(e)])
                    return fail('print_raised', type(e).__name__, op=op)
                for k in order:
                    m.after_print(k)
                trace.append(op + [got[:200]])
                if registered:
                    res['nontrivial'] = True
                if _norm(got) != _norm(exp_long):
                    return fail('wrong_printer', 'long_sequence', op=op, got=got[:600], expected=exp_long[:600])
                continue
            try:
                got = pformat(_nest(nested, c))
            except Exception as e:
                trace.append(op + ['RAISED ' + repr(e)])
                return fail('print_raised', type(e).__name__, op=op)
            exp = NEST_TEXT[nested] % ((exp,) * NEST_TEXT[nested].count('%s'))
            m.after_print(c)
            if c.__name__ == 'IPar' and m.winner(c) is None:
                m.after_print(cls['IC'])      # the protocol printer printed its child
            trace.append(op + [got])
            if registered:
                res['nontrivial'] = True
            # layout (line breaks, indentation) is not C15's business: compare modulo whitespace
            if _norm(got) != _norm(exp):
                w = m.winner(c)
                sig = 'print'
                return fail('wrong_printer', sig, op=op, got=got, expected=exp,
                            winner=w.__name__ if w else None)
        elif k == 'repr':
            # repr() of a class whose __repr__ is pretty_repr: the printer's text if a class-kind
            # registration covers it, else the default object repr
            c = cls[op[1]]
            exp_reg = m.isreg(c, True, True, True)
            exp = m.tag(c)
            try:
                got = repr(c())
            except Exception as e:
                return fail('pretty_repr_raised', type(e).__name__, op=op, error=repr(e)[:200])
            trace.append(op + [got])
            if exp_reg:
                m.after_print(c)
                if got != exp:
                    return fail('wrong_printer', 'pretty_repr', op=op, got=got, expected=exp)
            elif not re.fullmatch(r'<[\w.]+ object at 0x[0-9a-f]+>', got):
                return fail('wrong_printer', 'pretty_repr_unregistered', op=op, got=got)
        elif k == 'ir':
            c = cls[op[1]]
            cs, cd, rd = op[2]
            if not cd and rd:
                try:
                    is_registered(c, check_superclasses=cs, check_deferred=cd, register_deferred=rd)
                except ValueError:
                    trace.append(op + ['ValueError'])
                    bump('illegal_flags_rejected')
                    continue
                except Exception as e:
                    return fail('is_registered_raised', type(e).__name__, op=op)
                return fail('illegal_flags_accepted', 'no_valueerror', op=op)
            exp = m.isreg(c, cs, cd, rd)
            try:
                got = is_registered(c, check_superclasses=cs, check_deferred=cd, register_deferred=rd)
            except Exception as e:
                return fail('is_registered_raised', type(e).__name__, op=op)
            trace.append(op + [got])
            if exp is None:
                bump('is_registered_indeterminate')
            else:
                bump('is_registered_checked')
                if bool(got) != exp or not isinstance(got, bool):
                    return fail('is_registered_wrong', 'cs=%s,cd=%s,rd=%s' % (cs, cd, rd), op=op,
                                got=got, expected=exp)
        elif k == 'cc':
            PP.pretty_dispatch._clear_cache()
            trace.append(op)
        else:
            raise core.HarnessError('bad op %r' % (op,))
    res['sample'] = trace[:12]
    return res


def run(spec):
    return core.in_fork(lambda: execute(spec), RUN_TIMEOUT)


def on_timeout(spec):
    return None


def normalise(spec):
    if not spec['ops']:
        return None
    return spec


def shrinkers(spec):
    return [('list', lambda sp: sp['ops'], lambda sp, ops: dict(sp, ops=[list(o) for o in ops]))]


def extra_evidence(st):
    return dict(enumerated_histories={t: enum_count(t) for t in ENUM_LEN},
                enumerated_alphabet=ENUM_OPS,
                fault_kinds={'dispatch_cache_cleared (buggify)': st.counters.get('op_cc', 0)},
                simulated_time='operations applied (field simulated_steps)')
