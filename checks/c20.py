"""C20 - concurrent printing from several threads is safe.

2-3 simulated threads (simkit.sched) each perform 1-3 pformat calls, starting from a
pristine fork. Oracle: linearizability against the real code run serially in sibling
pristine forks; no call may raise; no deadlock; no run-away.
"""
import ast
import dataclasses
import itertools
import os
import sys
import warnings

from simkit import core, sched

ID = 'C20'
LEVEL = 'exploration'
RUN_TIMEOUT = 120.0
CHUNK = 20
TIERS = {'quick': dict(runs=2600, budget_s=240), 'thorough': dict(runs=60000, budget_s=1500)}
RULE = ('seeded workloads of 2-3 threads x 1-3 pformat calls over a fixed corpus (first use of '
        'lazily registered stdlib/harness types, direct/predicate/unregistered classes, struct '
        'sequences, long strings, commented and cyclic shared values), each run in a pristine fork '
        'under a seeded schedule policy (uniform / shared-site-biased / PCT / stratified single '
        'pre-emption at the k-th shared-state yield point), line or line+bytecode granularity. '
        'distinct = distinct digest of the full (thread, code, line, bytecode) step sequence; '
        'non-trivial = distinct AND at least one pre-emptive context switch happened inside a '
        'pformat call.')
REAL = ['prettyprinter/* (tree under check)', 'functools.singledispatch', 'warnings', 'io.StringIO',
        'CPython threads (one runnable at a time)']
STUBS = ['scheduler choice (seeded PRNG / recorded segments)', 'SimLock/SimRLock for locks created '
         'by package code', 'harness classes and their printers/predicates']
ASSUMPTIONS = [
    'thread switches happen only at line boundaries (and bytecode boundaries in shared-state '
    'functions) of code under <repo>/prettyprinter/; stdlib and C code run atomically',
    'CPython 3.12 in /venv',
    'harness printers/predicates are pure and lock free',
]

P = PP = None
ITEMS = []          # (name, group, value, kwargs)
SHARED = {}
SHARED_NAMES = []
SERIAL_STEPS = []
SERIAL_SHARED = []  # per item: line events inside shared-state functions when printed alone
SERIAL_SITES = []   # per item: {(function, line): times reached} for shared-state sites, printed alone
SWEEP = {}          # item -> ordered pre-emption candidates [(function, line, occurrence)], rare sites first
SERIAL_HELD = []    # per item: which of those shared-state yield points (1-based) run while a package lock is held
PAIRS = []          # stratified sweep workloads: (item index, item index)
PAIR_NAMES = [('uuid', 'uuid2'), ('uuid', 'uuid_in_list'), ('uuid_in_dict', 'mproxy'), ('enum', 'enum_list'),
              ('enum', 'intenum'), ('intenum', 'flag'), ('ppath', 'wpath'), ('ppath', 'path_long'),
              ('partial', 'partialmethod'), ('partial', 'mixed_lazy'), ('mproxy', 'mproxy'),
              ('h_sub_a', 'h_sub_b'), ('h_base', 'h_sub_a'), ('h_base', 'h_base'), ('h_exact', 'h_sub_a'),
              ('h_leaf', 'h_mid'), ('h_leaf', 'h_base2'), ('h_mid', 'h_base2'), ('h_sub_nested', 'h_exact'),
              ('struct_time', 'struct_time2'), ('float_info', 'version_info'), ('stat', 'stat'),
              ('cyclic', 'cyclic'), ('shared_list', 'shared_list'), ('cyclic', 'uuid'), ('cyclic_twice', 'depth'),
              ('long_str', 'long_str_nested'), ('commented', 'commented'), ('long_list', 'tiny'), ('tiny3', 'long_list'),
              ('fits_exactly', 'tiny3'), ('reentrant', 'reentrant'), ('oldstyle', 'uuid'), ('h_re_sub', 'h_re'),
              ('comment_wrapping', 'commented'), ('commented', 'many_comments'), ('comment_wrapping', 'many_comments'),
              ('uuid', 'h_pred_lazy'), ('h_pred_lazy', 'h_sub_b'), ('h_pred_lazy', 'h_pred_lazy'),
              ('many_floats', 'containers'), ('weird_getattr', 'uuid'), ('weird_getattr', 'h_unreg'), ('weird_getattr', 'enum'),
              ('str50', 'str50_narrow'), ('str50_narrow', 'str50'), ('str50', 'long_str'), ('huge_int', 'huge_int'),
              ('huge_int', 'measurement'), ('reentrant_long', 'reentrant_long'), ('reentrant_long', 'tiny3'), ('containers', 'deep150'),
              ('deep150', 'deep150'), ('tiny', 'deep150'), ('boxed_pretty_repr', 'boxed_pretty_repr'), ('boxed_pretty_repr', 'boxed_pretty_repr2'), ('dataclass', 'dataclass'), ('dataclass', 'dataclass2'), ('attrs', 'attrs'),
              ('ipython_protocol', 'ipython_protocol'), ('h_bad', 'h_bad'), ('h_bad', 'h_unreg'),
              ('containers', 'deep_indent'), ('deep_indent', 'long_str_nested'), ('tiny3', 'deep_indent'), ('h_pred_c', 'h_pred_b'), ('h_pred_b', 'h_pred_c'), ('h_pred_c', 'h_pred'),
              ('h_pred_mixed', 'h_pred_c'), ('h_pred_c', 'h_pred_c'), ('h_memo', 'h_memo'), ('uuid', 'enum'),
              ('enum', 'uuid'), ('h_sub_a', 'enum'), ('partial', 'ppath'), ('ast', 'ast'), ('h_pred', 'h_unreg')]
PROBE_RANGES = {}   # probe -> (funcname, lo, hi)


# ------------------------------------------------------------------ harness classes
class HBase:
    def __init__(self, *a):
        self.a = a

    def __repr__(self):
        return '%s<repr>' % type(self).__name__


class HSubA(HBase):
    pass


class HSubB(HBase):
    pass


class HExact(HBase):
    pass


class HPlain:
    """no by-name printer anywhere in the MRO (so predicates and the repr fall-back are reachable)"""

    def __init__(self, *a):
        self.a = a

    def __repr__(self):
        return '%s<repr>' % type(self).__name__


class HDirect(HPlain):
    pass


class HPred(HPlain):
    pass


class HUnreg(HPlain):
    pass


class HPredB(HPlain):
    pass


class HPredC(HPlain):
    pass


class HMemo:
    def __repr__(self):
        return 'HMemo!'


class HBad(HPlain):
    pass


class HRe(HBase):
    """registered directly and then again by name (pending at start)"""


class HReSub(HRe):
    pass


class Reentrant:
    def __init__(self, inner):
        self.inner = inner


class OldStyle:
    def __init__(self, x):
        self.x = x

    def __repr__(self):
        return 'OldStyle(%s)' % P.pformat(self.x, width=200)



@dataclasses.dataclass
class DPoint:
    x: int
    y: int = 0
    tags: list = dataclasses.field(default_factory=list)
    hidden: int = dataclasses.field(default=1, repr=False)


try:
    import attr as _attr

    @_attr.s
    class APoint:
        x = _attr.ib()
        y = _attr.ib(default=0)
        tags = _attr.ib(factory=list)
except ImportError:      # pragma: no cover
    APoint = None


class IPy:
    """implements IPython's _repr_pretty_ protocol"""

    def __init__(self, items):
        self.items = items

    def _repr_pretty_(self, p, cycle):
        with p.group(4, 'IPy(', ')'):
            for i, x in enumerate(self.items):
                if i:
                    p.text(',')
                    p.breakable()
                p.pretty(x)


class Foo:
    def __init__(self, n):
        self.n = n


class BoxU:
    def __init__(self, item):
        self.item = item

    def __repr__(self):
        return 'Box(%r)' % (self.item,)


class Weird:
    """unregistered; attribute access raises KeyError (a predicate that probes attributes raises on it)"""

    def __getattr__(self, name):
        raise KeyError(name)

    def __repr__(self):
        return 'Weird()'


class Measurement:
    def __init__(self, v):
        self.v = v

    def __repr__(self):
        try:
            return 'Measurement(%d)' % self.v
        except ValueError:
            return 'Measurement(<int of %d bits>)' % self.v.bit_length()


class HBase2:
    def __init__(self, *a):
        self.a = a

    def __repr__(self):
        return '%s<repr>' % type(self).__name__


class HMid(HBase2):
    pass


class HLeaf(HMid):
    pass


def _key(cls):
    return cls.__module__ + '.' + cls.__qualname__


def setup():
    global P, PP, SHARED, SHARED_NAMES
    sched.install_lock_seam()
    P, PP = core.import_package()
    import collections
    import datetime
    import enum
    import functools
    import pathlib
    import time
    import types
    import uuid
    from prettyprinter import register_pretty, pretty_call, comment, trailing_comment, install_extras
    # one at a time: install_extras walks a *set* of names, whose order would depend on PYTHONHASHSEED
    for extra in ['dataclasses', 'ipython_repr_pretty'] + (['attrs'] if APoint else []):
        install_extras(include=[extra], raise_on_error=True)

    # by-name registrations: pending until first use inside a run
    @register_pretty(_key(HSubA.__mro__[1]))
    def p_base(v, ctx):
        return pretty_call(ctx, type(v), *v.a)

    @register_pretty(_key(HExact))
    def p_exact(v, ctx):
        return pretty_call(ctx, type(v), *v.a, exact=True)

    @register_pretty(_key(HBase2))
    def p_base2(v, ctx):
        return pretty_call(ctx, type(v), *v.a, b2=1)

    @register_pretty(_key(HMid))
    def p_mid(v, ctx):
        return pretty_call(ctx, type(v), *v.a, mid=1)

    @register_pretty(HDirect)
    def p_direct(v, ctx):
        return pretty_call(ctx, type(v), *v.a, direct=True)

    @register_pretty(predicate=lambda v: isinstance(v, HPred))
    def p_pred(v, ctx):
        return pretty_call(ctx, type(v), *v.a, pred=True)

    @register_pretty(HRe)
    def p_re_old(v, ctx):
        return pretty_call(ctx, type(v), *v.a, printer='direct')

    @register_pretty(_key(HRe))
    def p_re_new(v, ctx):
        return pretty_call(ctx, type(v), *v.a, printer='by-name')

    from prettyprinter.doc import contextual

    @register_pretty(Reentrant)
    def p_reent(v, ctx):
        def evaluator(indent, column, page_width, ribbon_width):
            return 'Reentrant<%s>' % P.pformat(v.inner, width=200).replace('\n', ' ')
        return contextual(evaluator)

    @register_pretty(predicate=lambda v: isinstance(v, HPredB))
    def p_pred_b(v, ctx):
        return pretty_call(ctx, type(v), *v.a, pred='b')

    @register_pretty(predicate=lambda v: isinstance(v, HPredC))
    def p_pred_c(v, ctx):
        return pretty_call(ctx, type(v), *v.a, pred='c')

    from prettyprinter.doc import always_break, group as _group, concat as _concat, nest as _nest, LINE as _LINE, \
        SOFTLINE as _SOFTLINE
    memo = {}

    @register_pretty(HMemo)
    def p_memo(v, ctx):
        if 'doc' not in memo:
            # a group whose Concat has a forced-break child: the break must survive every normalisation
            memo['doc'] = _group(_concat([
                'HMemo(',
                always_break(_concat([_nest(4, _concat([_SOFTLINE, 'a=1,', _LINE, 'b=2'])), _SOFTLINE])),
                ')']))
        return memo['doc']

    Foo.__repr__ = P.pretty_repr

    @register_pretty(Foo)
    def p_foo(v, ctx):
        return pretty_call(ctx, Foo, n=v.n)

    @register_pretty(HBad)
    def p_bad(v, ctx):
        raise ValueError('harness printer failure')

    class Col(enum.Enum):
        R = 1
        G = 2

    class IE(enum.IntEnum):
        X = 3

    class Fl(enum.Flag):
        A = 1
        B = 2

    u = uuid.UUID(int=5)
    NT = collections.namedtuple('NT', 'a b')
    cyc = [1]
    cyc.append({'self': cyc, 'u': u})
    shared_list = [HSubA(1), [2, 3]]
    dd = collections.defaultdict(list, a=[1])
    long_s = 'lorem ipsum dolor sit amet ' * 8
    add = ITEMS.append
    W = (20, 40, 79)
    # -- lazily registered stdlib types (first use promotes a by-name entry)
    add(('uuid', 'lazy', u, {}))
    add(('uuid_in_list', 'lazy', [u, 1], {}))
    add(('uuid_in_dict', 'lazy', {'k': u, 'c': Col.R}, {'width': 20}))
    add(('uuid2', 'lazy', uuid.UUID(int=77), {'width': 20}))
    add(('enum', 'lazy', Col.R, {}))
    add(('enum_list', 'lazy', [Col.G, Col.R, IE.X], {'width': 10}))
    add(('intenum', 'lazy', IE.X, {}))
    add(('flag', 'lazy', Fl.A, {}))
    add(('ppath', 'lazy', pathlib.PurePosixPath('/a/b/c'), {}))
    add(('wpath', 'lazy', pathlib.PureWindowsPath('c:/a/b'), {}))
    add(('path_long', 'lazy', [pathlib.PurePosixPath('/' + '/'.join(['seg%d' % i for i in range(12)]))], {'width': 30}))
    add(('partial', 'lazy', functools.partial(int, base=2), {}))
    add(('partialmethod', 'lazy', functools.partialmethod(int, 1), {}))
    add(('mproxy', 'lazy', types.MappingProxyType({'a': 1, 'b': [u]}), {}))
    add(('ast', 'lazy', ast.parse('1+x', mode='eval').body, {'width': 40}))
    add(('mixed_lazy', 'lazy', [u, Col.R, pathlib.PurePosixPath('/x'), functools.partial(len)], {'width': 30}))
    # -- harness classes registered by name
    add(('h_sub_a', 'hlazy', HSubA(1, 'x'), {}))
    add(('h_sub_b', 'hlazy', HSubB([1, 2]), {}))
    add(('h_base', 'hlazy', HBase(0), {}))
    add(('h_exact', 'hlazy', HExact(2), {}))
    add(('h_sub_nested', 'hlazy', {'a': HSubA(HSubB(3)), 'b': [HExact()]}, {'width': 30}))
    add(('h_leaf', 'hlazy', HLeaf(1), {}))
    add(('h_mid', 'hlazy', HMid(2), {}))
    add(('h_base2', 'hlazy', [HBase2(3), HLeaf()], {}))
    # -- directly registered / predicate / unregistered / failing
    add(('h_direct', 'plain', HDirect(1, [2]), {}))
    add(('h_pred_lazy', 'hlazy', HPred(uuid.UUID(int=31), HSubB(2)), {}))
    add(('many_comments', 'layout', [comment(i, 'note %d' % i) for i in range(140)], {}))
    add(('many_floats', 'layout', [i / 7 for i in range(150)], {'width': 60}))
    add(('h_pred', 'plain', HPred('p'), {}))
    add(('h_unreg', 'plain', [HUnreg(), 1], {}))
    add(('weird_getattr', 'plain', [Weird(), 1], {}))
    add(('str50', 'layout', ['x' * 50, 1], {}))
    add(('str50_narrow', 'layout', {'k': ['y' * 30, 2]}, {'width': 40}))
    add(('huge_int', 'plain', [7 ** 2000], {}))
    add(('measurement', 'plain', [Measurement(7 ** 6000)], {}))
    foo = Foo(1)
    add(('boxed_pretty_repr', 'shared', BoxU(foo), {}))
    add(('boxed_pretty_repr2', 'shared', [BoxU(foo), foo], {}))
    add(('dataclass', 'extras', DPoint(4, 5, ['t']), {}))
    add(('dataclass2', 'extras', [DPoint(1), DPoint(2, 3)], {'width': 20}))
    if APoint:
        add(('attrs', 'extras', APoint(4, 5, ['t']), {}))
    add(('ipython_protocol', 'extras', IPy([1, [2, 3], IPy(['x' * 30, 'y' * 30])]), {'width': 40}))
    add(('deep_indent', 'layout', {'a': {'b': {'c': {'d': ['x' * 30, 'y' * 30, 'z' * 30]}}}}, {'width': 40}))
    add(('h_pred_b', 'plain', HPredB(1), {}))
    add(('h_pred_c', 'plain', [HPredC(2), HPredC()], {}))
    add(('h_pred_mixed', 'plain', [HPredC(), HPredB(), HPred('x')], {}))
    add(('h_memo', 'layout', [HMemo(), {'m': HMemo()}], {'width': 30}))
    add(('h_bad', 'plain', [1, HBad(), 2], {}))
    # -- struct sequences (class-keyed field-name cache)
    add(('struct_time', 'cache', time.strptime('2000', '%Y'), {'width': 40}))
    add(('struct_time2', 'cache', [time.gmtime(0)], {}))
    add(('float_info', 'cache', sys.float_info, {'width': 60}))
    add(('version_info', 'cache', sys.version_info, {}))
    add(('stat', 'cache', os.stat_result(tuple(range(10))), {'width': 50}))
    # -- long strings (layout-time closure), bytes
    add(('long_str', 'layout', long_s, {'width': 40}))
    add(('long_str_nested', 'layout', {'k': [long_s, 'short']}, {'width': 50}))
    add(('long_bytes', 'layout', b'ab\x00' * 40, {'width': 30}))
    # -- comments
    add(('commented', 'layout', {'a': comment([1, comment(2, 'two')], 'top'), 'b': trailing_comment([1, 2], 'more')}, {'width': 30}))
    long_note = 'the quick brown fox keeps running through the forest until it reaches the river bank at dawn'
    add(('comment_wrapping', 'layout', [comment([1, 2, 3], long_note), comment('x', 'short')], {'width': 40}))
    add(('long_list', 'layout', [100000 + i for i in range(30)], {}))
    add(('tiny', 'layout', [1], {}))
    add(('tiny3', 'layout', [1, 2, 3], {}))
    add(('fits_exactly', 'layout', {'k': list(range(20))}, {'width': 79}))
    add(('reentrant', 'layout', [Reentrant([1, 2, 3]), {'k': Reentrant({'b': 1, 'a': [u]})}], {}))
    add(('reentrant_long', 'layout', ['first element', Reentrant([1, 2, 3]), 'x' * 40, 'y' * 40], {'width': 79}))
    deep = [1]
    for _ in range(150):
        deep = [deep]
    # optional: kept only if the tree under check can print it serially at all
    add(('deep150', 'optional', deep, {}))
    add(('oldstyle', 'plain', {'old': OldStyle([1, 2, {'z': 1, 'a': u}])}, {}))
    add(('h_re_sub', 'hlazy', HReSub(1), {}))
    add(('h_re', 'hlazy', [HRe(2), HReSub()], {}))
    # -- shared / cyclic values handed to several threads
    add(('cyclic', 'shared', cyc, {}))
    add(('cyclic_twice', 'shared', [cyc, cyc], {'width': 30}))
    add(('shared_list', 'shared', [shared_list, shared_list], {'width': 20}))
    # -- misc bundled
    add(('containers', 'plain', {'a': [1, 2.5, None, True, ...], 'b': (1,), 'c': {3}, 'd': frozenset([1])}, {'width': 20}))
    add(('datetime', 'plain', [datetime.datetime(2020, 1, 2, 3, 4, tzinfo=datetime.timezone.utc), datetime.timedelta(days=800, seconds=3), datetime.date(2020, 1, 1), datetime.time(1, 2)], {}))
    add(('collections', 'plain', [collections.OrderedDict(a=1), dd, collections.Counter('aab'), collections.deque([1], maxlen=3), collections.ChainMap({'a': 1})], {}))
    add(('namedtuple', 'plain', NT(1, 'x'), {}))
    add(('namespace', 'plain', types.SimpleNamespace(b=1, a=[u]), {}))
    add(('exception', 'plain', ValueError('x', 1), {}))
    add(('types', 'plain', [int, len, [1].append, datetime.datetime], {}))
    add(('sorted_dict', 'plain', {'b': 1, 'a': 2, 'c': {2: 0, 1: 0}}, {'sort_dict_keys': True}))
    add(('truncated', 'plain', list(range(30)), {'max_seq_len': 5}))
    add(('depth', 'plain', [[[[1, u]]]], {'depth': 2}))

    SHARED, SHARED_NAMES = sched.shared_codes()
    _locate_probes()
    _measure_serial_steps()


def _locate_probes():
    """Find the race windows by AST pattern in the tree under check (not by line number)."""
    src = open(core.PKG + 'prettyprinter.py').read()
    tree = ast.parse(src)
    for fn in ast.walk(tree):
        if isinstance(fn, ast.FunctionDef) and fn.name == 'is_registered':
            n = 0
            for node in ast.walk(fn):
                if isinstance(node, ast.If) and isinstance(node.test, ast.Compare) and \
                        any(isinstance(o, ast.In) for o in node.test.ops) and \
                        any(isinstance(c, ast.Name) and 'DEFERRED' in c.id for c in node.test.comparators):
                    pops = [c for c in ast.walk(node) if isinstance(c, ast.Call) and
                            isinstance(c.func, ast.Attribute) and c.func.attr == 'pop']
                    regs = [c for c in ast.walk(node) if isinstance(c, ast.Call) and
                            isinstance(c.func, ast.Call) and
                            getattr(c.func.func, 'id', '') == 'register_pretty']
                    stmt_lo = min(getattr(s, 'lineno', 10 ** 9) for s in node.body)
                    if regs:
                        # the promotion window: membership test passed, new printer not yet live
                        PROBE_RANGES['parked_between_check_and_register_%d' % n] = (
                            'is_registered', stmt_lo, regs[0].end_lineno)
                    if pops:
                        PROBE_RANGES['parked_between_check_and_pop_%d' % n] = (
                            'is_registered', stmt_lo, pops[0].lineno)
                        if regs:
                            PROBE_RANGES['parked_between_pop_and_register_%d' % n] = (
                                'is_registered', pops[0].end_lineno + 1, regs[0].end_lineno)
                    if regs or pops:
                        n += 1
            for node in ast.walk(fn):
                if isinstance(node, ast.For):
                    PROBE_RANGES['parked_in_supertype_loop'] = ('is_registered', node.lineno, node.end_lineno)
        if isinstance(fn, ast.FunctionDef) and fn.name == 'decorator':
            PROBE_RANGES.setdefault('parked_in_register_pretty_decorator', ('decorator', fn.lineno, fn.end_lineno))
        if isinstance(fn, ast.FunctionDef) and fn.name == 'pretty_cnamedtuple':
            PROBE_RANGES['parked_in_struct_seq_cache_fill'] = ('pretty_cnamedtuple', fn.lineno, fn.end_lineno)
        if isinstance(fn, ast.FunctionDef) and fn.name == 'evaluator':
            PROBE_RANGES.setdefault('parked_in_contextual_evaluation', ('evaluator', fn.lineno, fn.end_lineno))


def _call(i):
    name, group, value, kw = ITEMS[i]
    return P.pformat(value, **kw)


def _measure_serial_steps():
    def go():
        out = []
        for i in range(len(ITEMS)):
            n = [0, 0]
            held = []
            sites = {}
            hot = set()
            last = [None, False]

            def local(frame, event, arg):
                if event == 'line':
                    n[0] += 1
                    if frame.f_code in SHARED:
                        n[1] += 1
                        if sched.LOCK_STATS['held'] > 0:
                            held.append(n[1])
                        key = '%s:%d' % (frame.f_code.co_name, frame.f_lineno)
                        sites[key] = sites.get(key, 0) + 1
                        # a line that mutates state, or the line reached right after one in the same function
                        is_write = frame.f_lineno in sched.WRITE_LINES.get(frame.f_code, ())
                        if is_write or (last[0] is frame.f_code and last[1]):
                            hot.add(key)
                        last[0], last[1] = frame.f_code, is_write
                return local

            def glob(frame, event, arg):
                return local if frame.f_code.co_filename.startswith(core.PKG) else None
            warnings.simplefilter('ignore')
            sys.settrace(glob)
            try:
                try:
                    _call(i)
                    ok = True
                except Exception as e:
                    ok = repr(e)
            finally:
                sys.settrace(None)
            out.append([n[0], ok, n[1], held, sites, sorted(hot)])
        return out
    kind, res = core.in_fork(go, 120)
    if kind != 'ok':
        raise core.HarnessError('serial step measurement failed: %s' % (res,))
    SERIAL_STEPS[:] = [r[0] for r in res]
    SERIAL_SHARED[:] = [r[2] for r in res]
    SERIAL_HELD[:] = [r[3] for r in res]
    SERIAL_SITES[:] = [r[4] for r in res]
    for i, sites in enumerate(SERIAL_SITES):
        # rare (cold-path, first-use) sites first; per site the first, last, second, ... occurrence
        cand = []
        hot = set(res[i][5])
        # first the lines around a mutation of shared state (check-then-act windows), rare before frequent
        ordered = sorted(sites.items(), key=lambda kv: (kv[0] not in hot, kv[1], kv[0]))
        for rnd in range(4):
            for key, cnt in ordered:
                occs = [1, cnt, 2, max(1, cnt // 2)]
                occ = occs[rnd]
                name, line = key.rsplit(':', 1)
                c = (name, int(line), occ)
                if occ <= cnt and c not in cand:
                    cand.append(c)
        SWEEP[i] = cand
    byname = {it[0]: i for i, it in enumerate(ITEMS)}
    dropped = [i for i, r in enumerate(res) if r[1] is not True and ITEMS[i][1] == 'optional']
    for i in dropped:
        # stays in the list (indices are part of replay files) but is never drawn
        ITEMS[i] = (ITEMS[i][0], 'dropped', None, {})
    bad = [ITEMS[i][0] for i, r in enumerate(res) if r[1] is not True and i not in dropped]
    PAIRS[:] = [(byname[a], byname[b]) for a, b in PAIR_NAMES if a in byname and b in byname and
                'dropped' not in (ITEMS[byname[a]][1], ITEMS[byname[b]][1])]
    if bad:
        # a corpus item that raises when printed alone cannot serve in a "none raises" oracle
        raise core.HarnessError('corpus items raise serially: %s' % bad)


# ------------------------------------------------------------------ generation
GROUP_W = [('optional', 1), ('lazy', 5), ('hlazy', 4), ('plain', 2), ('cache', 2), ('layout', 2), ('shared', 1), ('extras', 2)]


def _pick_item(rng):
    tot = sum(w for _, w in GROUP_W)
    x = rng.randrange(tot)
    for g, w in GROUP_W:
        if x < w:
            break
        x -= w
    cands = [i for i, it in enumerate(ITEMS) if it[1] == g] or [i for i, it in enumerate(ITEMS) if it[1] == 'lazy']
    return cands[rng.randrange(len(cands))]


def generate(rng, idx, tier):
    kind = idx % 8
    if kind >= 4 and PAIRS:
        # stratified sweep (seed-indexed, not drawn): pair j of a fixed list, thread A parked at its
        # k-th shared-state yield point while B runs to completion; k sweeps 1..K_A over successive j
        j = (idx // 8) * 4 + (kind - 4)
        a, b = PAIRS[j % len(PAIRS)]
        rot = j // len(PAIRS)
        if rot % 2:
            a, b = b, a
        ka = max(1, SERIAL_SHARED[a])
        r2 = rot // 2
        if SWEEP.get(a) and j % 5 != 4:
            # site-stratified: park thread A at the occ-th time it reaches one shared-state source line
            site = SWEEP[a][r2 % len(SWEEP[a])]
            est = SERIAL_STEPS[a] + SERIAL_STEPS[b]
            follow = r2 % 3 != 0     # two of three sweep runs: follow-up calls after the parked one
            return dict(threads=[[a, b], [b, a]] if follow else [[a], [b]],
                        sched=dict(seed=rng.randrange(1 << 30), opcode=False, max_steps=est * 120 + 20000,
                                   est_steps=est, policy='strat', strat_tid=0, strat_k=0,
                                   strat_site=list(site), sweep=True))
        # alternate between yield points under a package lock and the lock-free ones; stride through
        # each list with a step coprime to its length, so that a short batch samples the whole range
        held = SERIAL_HELD[a]
        free = [x for x in range(1, ka + 1) if x not in set(held)] or [1]
        pick = held if (held and r2 % 2 == 0) else free
        step = next(st for st in (7, 5, 3, 11, 13, 1) if len(pick) % st or len(pick) == 1)
        k = pick[((r2 // 2) * step) % len(pick)]
        est = SERIAL_STEPS[a] + SERIAL_STEPS[b]
        return dict(threads=[[a], [b]],
                    sched=dict(seed=rng.randrange(1 << 30), opcode=False, max_steps=est * 60 + 20000,
                               est_steps=est, policy='strat', strat_tid=0, strat_k=k, sweep=True))
    nthreads = 2 if rng.random() < 0.6 else 3
    threads = []
    focus = _pick_item(rng) if rng.random() < 0.5 else None
    for t in range(nthreads):
        calls = []
        for c in range(rng.choice([1, 1, 2, 2, 3])):
            if focus is not None and rng.random() < 0.6:
                # same item or an item of the same group: contention on one entry
                if rng.random() < 0.5:
                    calls.append(focus)
                else:
                    g = ITEMS[focus][1]
                    cands = [i for i, it in enumerate(ITEMS) if it[1] == g]
                    calls.append(cands[rng.randrange(len(cands))])
            else:
                calls.append(_pick_item(rng))
        threads.append(calls)
    est = sum(SERIAL_STEPS[i] for th in threads for i in th)
    sp = dict(seed=rng.randrange(1 << 30), opcode=rng.random() < 0.5,
              max_steps=est * 60 + 20000, est_steps=est)
    # (kinds 4-7 are the sweeps above) random workloads: uniform / shared-site-biased / PCT / random single pre-emption
    sub = (idx // 8) % 3
    if kind == 0:
        sp.update(policy='uniform', p=rng.choice([0.001, 0.003, 0.01, 0.03, 0.1, 0.3]))
    elif kind == 1:
        sp.update(policy='biased', p=rng.choice([0.0, 0.001, 0.01]),
                  p_shared=rng.choice([0.1, 0.3, 0.6]))
    elif kind == 2 or sub:
        dmax = 3 if tier == 'quick' else 8
        sp.update(policy='pct', d=rng.randrange(1, dmax + 1))
    else:
        sp.update(policy='strat', strat_tid=rng.randrange(nthreads), strat_k=rng.randrange(1, 400))
    return dict(threads=threads, sched=sp)


# ------------------------------------------------------------------ execution
def _concurrent(spec):
    warnings.simplefilter('always')
    warned = []
    warnings.showwarning = lambda m, c, f, l, file=None, line=None: warned.append(c.__name__)
    s = sched.Scheduler(dict(spec['sched'], probe_funcs=[v[0] for v in PROBE_RANGES.values()]),
                        SHARED, wall_timeout=RUN_TIMEOUT - 20)
    for calls in spec['threads']:
        s.spawn([(lambda i=i: _call(i)) for i in calls])
    s.run()
    results = []
    for t in s.threads:
        results.extend(t.results)
    return dict(results=results, aborted=s.aborted, steps=s.steps, switches=s.switches,
                forced=s.forced, lock_blocks=s.lock_blocks, segments=s.segments,
                digest=s.digest(), pairs=sorted(s.pairs), warnings=len(warned),
                park_sites=sorted(s.park_log),
                unfinished=[[t.tid, len(t.results)] for t in s.threads if not t.done])


def _serial(order):
    """order: list of item indices; runs them one after another, untraced."""
    warnings.simplefilter('ignore')
    out = []
    for i in order:
        try:
            out.append(['ok', _call(i)])
        except Exception as e:
            out.append(['exc', type(e).__name__, str(e)[:200]])
    return out


def _search_orders(spec, recs):
    """Is there a serial order, compatible with per-thread order and real-time precedence,
    under which every call returns what it returned concurrently?"""
    n = len(recs)
    tried = 0
    prec = [[a['ret'] < b['inv'] for b in recs] for a in recs]
    for perm in itertools.permutations(range(n)):
        pos = {c: k for k, c in enumerate(perm)}
        if any(prec[a][b] and pos[a] > pos[b] for a in range(n) for b in range(n)):
            continue
        tried += 1
        kind, outs = core.in_fork(lambda: _serial([recs[c]['item'] for c in perm]), 120)
        if kind != 'ok':
            raise core.HarnessError('serial oracle failed: %s' % (outs,))
        if all(outs[k] == recs[c]['out'] for k, c in enumerate(perm)):
            return True, tried
    return False, tried


def run(spec):
    kind, conc = core.in_fork(lambda: _concurrent(spec), RUN_TIMEOUT)
    if kind != 'ok':
        return kind, conc
    res = dict(steps=conc['steps'], digest=conc['digest'], nontrivial=conc['switches'] > 0,
               counters={}, **{'class': None})
    c = res['counters']
    c['context_switches_preemptive'] = conc['switches']
    c['context_switches_forced'] = conc['forced']
    c['lock_block_events'] = conc['lock_blocks']
    c['policy_' + spec['sched']['policy']] = 1
    if spec['sched'].get('sweep'):
        c['stratified_sweep_runs'] = 1
    c['granularity_opcode' if spec['sched'].get('opcode') else 'granularity_line'] = 1
    c['calls'] = sum(len(t) for t in spec['threads'])
    res['sets'] = {'parked_site_x_running_shared_function': conc['pairs'],
                   'preempted_at_shared_site': conc['park_sites']}
    for site in conc['park_sites']:
        name, line = site.rsplit(':', 1)
        for probe, (fn, lo, hi) in PROBE_RANGES.items():
            if fn == name and lo <= int(line) <= hi:
                c['probe_' + probe] = 1
    explicit = dict(threads=spec['threads'],
                    sched=dict(policy='explicit', segments=conc['segments'],
                               opcode=spec['sched'].get('opcode', False),
                               max_steps=spec['sched'].get('max_steps', 10 ** 7)))
    recs = conc['results']
    for r in recs:
        r['item'] = spec['threads'][r['tid']][r['call']]

    def fail(cls, sig, detail):
        res['class'] = cls
        res['signature'] = sig
        res['detail'] = detail
        res['replay_spec'] = explicit
        return 'ok', res

    names = [[ITEMS[i][0] for i in t] for t in spec['threads']]
    if conc['aborted'] == 'deadlock':
        return fail('deadlock', 'deadlock', dict(threads=names, unfinished=conc['unfinished']))
    if conc['aborted'] == 'step_cap':
        order = [i for t in spec['threads'] for i in t]
        kind, outs = core.in_fork(lambda: _serial(order), 120)
        if kind == 'ok':
            return fail('no_return', 'step_cap', dict(threads=names, steps=conc['steps'],
                                                      cap=spec['sched'].get('max_steps')))
        return kind, outs
    raised = [r for r in recs if r['out'][0] == 'exc']
    if raised:
        r = raised[0]
        return fail('raised', r['out'][1], dict(threads=names, item=ITEMS[r['item']][0],
                                                 exception=r['out'][1:], thread=r['tid']))
    # linearizability: first the serial order by invocation stamp
    recs_sorted = sorted(recs, key=lambda r: r['inv'])
    kind, outs = core.in_fork(lambda: _serial([r['item'] for r in recs_sorted]), 120)
    if kind != 'ok':
        return kind, outs
    c['serial_oracle_runs'] = 1
    if all(o == r['out'] for o, r in zip(outs, recs_sorted)):
        res['sample'] = dict(threads=names, policy=spec['sched']['policy'],
                             switches=conc['switches'], steps=conc['steps'])
        return 'ok', res
    ok, tried = _search_orders(spec, recs_sorted)
    c['serial_orders_searched'] = tried
    if ok:
        c['explained_by_other_serial_order'] = 1
        return 'ok', res
    diff = [dict(item=ITEMS[r['item']][0], thread=r['tid'], concurrent=r['out'][1][:300],
                 serial=o[1][:300] if o[0] == 'ok' else o)
            for o, r in zip(outs, recs_sorted) if o != r['out']]
    return fail('not_linearizable', diff[0]['item'] if diff else 'unknown',
                dict(threads=names, differing=diff[:3], orders_tried=tried))


def on_timeout(spec):
    return None


# ------------------------------------------------------------------ shrinking
def normalise(spec):
    threads = [list(t) for t in spec['threads']]
    if len(threads) < 2 or any(not t for t in threads):
        return None
    sp = dict(spec['sched'])
    if sp.get('policy') == 'explicit':
        segs = []
        for tid, n in sp['segments']:
            if tid >= len(threads) or n <= 0:
                continue
            if segs and segs[-1][0] == tid:
                segs[-1][1] += n
            else:
                segs.append([tid, n])
        sp['segments'] = segs
    return dict(threads=threads, sched=sp)


def shrinkers(spec):
    out = []

    def drop_threads(sp):
        n = len(sp['threads'])
        if n <= 2:
            return
        for k in range(n):
            threads = [t for i, t in enumerate(sp['threads']) if i != k]
            s2 = dict(sp['sched'])
            if s2.get('policy') == 'explicit':
                s2['segments'] = [[tid - (tid > k), c] for tid, c in s2['segments'] if tid != k]
            yield dict(threads=threads, sched=s2)

    def drop_calls(sp):
        for ti, t in enumerate(sp['threads']):
            if len(t) <= 1:
                continue
            for k in range(len(t)):
                threads = [list(x) for x in sp['threads']]
                del threads[ti][k]
                yield dict(threads=threads, sched=sp['sched'])
    out.append(('alts', drop_threads))
    out.append(('alts', drop_calls))
    if spec['sched'].get('policy') == 'explicit':
        put = lambda sp, segs: dict(threads=sp['threads'],
                                    sched=dict(sp['sched'], segments=[list(s) for s in segs]))
        out.append(('prefix', lambda sp: sp['sched']['segments'], put))
        orig = {}

        def get_indexed(sp):
            orig['segs'] = [list(x) for x in sp['sched']['segments']]
            return [[i] + x for i, x in enumerate(orig['segs'])]

        def put_merged(sp, kept):
            # a removed segment's steps are carried to the thread's next kept segment:
            # "remove a switch point = keep running the current thread"
            keep = set(k[0] for k in kept)
            segs, carry = [], {}
            for i, (tid, n) in enumerate(orig['segs']):
                if i in keep:
                    segs.append([tid, n + carry.pop(tid, 0)])
                else:
                    carry[tid] = carry.get(tid, 0) + n
            return dict(threads=sp['threads'], sched=dict(sp['sched'], segments=segs))
        out.append(('list', get_indexed, put_merged))

        def line_only(sp):
            if sp['sched'].get('opcode'):
                yield dict(threads=sp['threads'], sched=dict(sp['sched'], opcode=False))
        out.append(('alts', line_only))
    return out


def extra_evidence(st):
    probes = {k: v for k, v in st.counters.items() if k.startswith('probe_')}
    unreached = [p for p in PROBE_RANGES if 'probe_' + p not in probes]
    return dict(
        simulated_time='logical steps (one executed source line / bytecode in package code)',
        fault_kinds={'preemptive_context_switch': st.counters.get('context_switches_preemptive', 0),
                     'lock_block': st.counters.get('lock_block_events', 0)},
        shared_state_names=SHARED_NAMES,
        shared_state_functions=sorted(set(co.co_name for co in SHARED)),
        interleaving_measure='distinct_nontrivial counts distinct full step digests; distinct_sets counts distinct '
        '<site where a thread was parked | shared-state function another thread executed meanwhile> pairs and '
        'distinct shared-state sites at which a thread was pre-empted',
        probe_sites=PROBE_RANGES, probes_reached=probes, probes_unreached=unreached,
        sim_locks_created_by_package=sched.LOCK_STATS['created'],
        corpus_items=len(ITEMS),
    )
