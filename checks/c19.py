"""C19 - output depends only on the value and the settings; inputs are never modified.

A corpus of (value, settings) calls is built once in the pristine process. Reference text of
each item = what it prints as the first and only call of a pristine fork (and, for items whose
text carries no object id, of a genuinely fresh interpreter). A run is a seeded history of
calls with repetition, executed in one pristine fork; every call must return its reference
and leave a structural fingerprint of its argument unchanged.
"""
import collections
import dataclasses
import json
import reprlib
import os
import subprocess
import sys
import types
import warnings
from concurrent.futures import ThreadPoolExecutor

from simkit import core

ID = 'C19'
LEVEL = 'exploration'
RUN_TIMEOUT = 120.0
CHUNK = 50
TIERS = {'quick': dict(runs=20000, budget_s=240), 'thorough': dict(runs=800000, budget_s=1500)}
RULE = ('seeded histories of 3-60 pformat calls (with repetition; per-run knobs: length, clustering by '
        'type family, probability of clearing the dispatch cache between calls) over a fixed corpus of '
        '(value, settings) items covering every bundled printer, every lazily promoted by-name type, '
        'struct sequences, harness classes registered by name on a base, comments, long strings, cycles, '
        'sorted mixed-type keys and failing printers; each history runs in one pristine fork. Every call '
        'is compared with the item\'s first-call-in-a-pristine-process reference. distinct = distinct call '
        'list; non-trivial = distinct AND some item is printed when it is not the first call of the process.')
REAL = ['prettyprinter/* (tree under check)', 'functools.singledispatch', 'pytz zone data']
STUBS = ['harness classes/printers in the corpus']
ASSUMPTIONS = ['one interpreter = one forked child of a process that imported the package and never printed; '
               'object ids coincide between a history and its references because the corpus is built before forking',
               'fresh-interpreter references are compared only for items whose text contains no object id']

P = PP = None
CORPUS = []     # dicts: name, family, value, kw, idfree
REF = []        # per item: [text, fingerprint_ok]
REF_LATE = {}   # late items: reference once the late by-name registration has happened
LATE_DONE = [False]
FRESH = {}      # item index -> text from a fresh interpreter
HERE = os.path.dirname(os.path.abspath(__file__))


class HBase:
    def __init__(self, *a):
        self.a = a

    def __repr__(self):
        return '%s!' % type(self).__name__


class HSub(HBase):
    pass


class HSub2(HBase):
    pass


class HUnreg:
    def __repr__(self):
        return 'HUnreg!'


class HBad:
    def __repr__(self):
        return 'HBad!'


class HState:
    """printed through a predicate that looks at instance state"""

    def __init__(self, flag, name='s'):
        self.flag = flag
        self.name = name

    def __repr__(self):
        return 'HState<%s>' % self.name


class MyInt(int):
    pass


class MyStr(str):
    pass


class MyList(list):
    pass


def _twin(n):
    class Twin:
        def __init__(self, x):
            self.x = x

        def __repr__(self):
            return 'Twin%d!' % n
    return Twin


TwinA, TwinB = _twin(1), _twin(2)


class HRe:
    """registered directly, then again by qualified name (the by-name entry is pending at start)"""

    def __init__(self, *a):
        self.a = a

    def __repr__(self):
        return '%s!' % type(self).__name__


class HReSub(HRe):
    pass


class Reentrant:
    def __init__(self, inner):
        self.inner = inner


class OldStyle:
    def __init__(self, x):
        self.x = x

    def __repr__(self):
        return 'OldStyle(%s)' % P.pformat(self.x, width=200)


class HTcOnce:
    """its printer supports trailing comments but raises TypeError for instances flagged bad"""

    def __init__(self, bad):
        self.bad = bad

    def __repr__(self):
        return 'HTcOnce(%r)' % self.bad


class Task:
    """unregistered; its (recursion-guarded) __repr__ pretty-prints the container it lives in"""

    def __init__(self):
        self.owner = [self]

    @reprlib.recursive_repr()
    def __repr__(self):
        return '<Task in %s>' % P.pformat(self.owner)


class Table:
    """unregistered; multi-line repr whose lines end in blanks"""

    def __repr__(self):
        return 'Table(\n| id  name  \n| 1   x     \n)'


class HMemo:
    """its printer builds its document once and returns the very same Doc object on every call
    (documents are immutable values; the library itself shares module-level documents)"""

    def __repr__(self):
        return 'HMemo!'


class Weird:
    def __repr__(self):
        return '<weird, not an expression>'



@dataclasses.dataclass
class DPoint:
    x: int
    y: int = 0
    tags: list = dataclasses.field(default_factory=list)
    hidden: int = dataclasses.field(default=1, repr=False)


try:
    import attr as _attr

    @_attr.s
    class APoint:
        x = _attr.ib()
        y = _attr.ib(default=0)
        tags = _attr.ib(factory=list)
except ImportError:      # pragma: no cover
    APoint = None


class IPy:
    """implements IPython's _repr_pretty_ protocol"""

    def __init__(self, items):
        self.items = items

    def _repr_pretty_(self, p, cycle):
        with p.group(4, 'IPy(', ')'):
            for i, x in enumerate(self.items):
                if i:
                    p.text(',')
                    p.breakable()
                p.pretty(x)


class Gauge:
    """its printer returns a contextual document whose evaluator raises at layout time"""


class Widget:
    """registered by qualified name; Panel.Widget below shares its __name__ but has no printer"""

    def __init__(self, name=None):
        self.name = name

    def __repr__(self):
        return '<top-level Widget %s>' % self.name


class Panel:
    class Widget:
        def __repr__(self):
            return '<Panel.Widget>'


class LateBase:
    """its by-name printer is registered by the 'reg' operation somewhere in the history"""

    def __init__(self, n):
        self.n = n

    def __repr__(self):
        return '<%s n=%d>' % (type(self).__name__, self.n)


class LateLeaf(LateBase):
    pass


class LTop:
    """registered directly from the start; LMid gets a by-name printer late, LSub has none of its own"""

    def __init__(self, n):
        self.n = n

    def __repr__(self):
        return '<%s n=%d>' % (type(self).__name__, self.n)


class LMid(LTop):
    pass


class LSub(LMid):
    pass


class Holder:
    """unregistered; its __repr__ calls pformat(self.target) - a print nested inside the print that is
    showing the Holder, of a container that is on the outer print's active path. The nested call is
    recorded so that it can be compared with the very same call made while no print is running."""
    depth = 0
    record = []

    def __init__(self):
        self.target = None

    def __repr__(self):
        if Holder.depth >= 1:
            return '<Holder>'
        Holder.depth += 1
        try:
            text = P.pformat(self.target)
        finally:
            Holder.depth -= 1
        Holder.record.append(text)
        return '<Holder of %s>' % text.replace('\n', ' ')


class HMut:
    """registered printer that reads (only reads) every container it is given"""

    def __init__(self, *a):
        self.a = list(a)

    def __repr__(self):
        return 'HMut!'


def build_corpus():
    """Deterministic: the same call in another interpreter builds equal values."""
    import ast
    import datetime
    import enum
    import functools
    import pathlib
    import time
    import uuid
    from prettyprinter import comment, trailing_comment

    class Col(enum.Enum):
        R = 1
        G = 2

    class IE(enum.IntEnum):
        X = 3

    NT = collections.namedtuple('NT', 'a b')
    cyc = []
    cyc.append({'self': cyc})
    dd = collections.defaultdict(list, a=[1])
    c = []

    def add(name, family, value, kw=None, idfree=True, nested=None, late=False):
        c.append(dict(name=name, family=family, value=value, kw=kw or {}, idfree=idfree, nested=nested, late=late))

    add('int', 'scalar', 1)
    add('bigint', 'scalar', 10 ** 30)
    add('float', 'scalar', [2.5, float('inf'), -0.0, float('nan')])
    add('bool_none_ellipsis', 'scalar', [True, None, ...])
    add('str_long', 'str', 'x' * 100)
    add('str_words', 'str', 'the quick brown fox jumps ' * 6, dict(width=30))
    add('str_quotes', 'str', ["it's", 'say "hi"', 'both \' and "', 'tab\t\n\x00'])
    add('bytes_long', 'str', b'ab' * 60, dict(width=30))
    add('str_nested_long', 'str', {'key': ['word ' * 20]}, dict(width=40))
    add('list', 'container', [1, 2.5, None, True, ...])
    add('dict', 'container', {1: 2, 'a': (1,)})
    add('set', 'container', {3, 1, 2})
    add('frozenset', 'container', frozenset([1]))
    add('empty', 'container', [[], {}, (), set(), frozenset(), '', b''])
    add('tuple1', 'container', ((1,), ((2,),)))
    add('nested_w10', 'container', {'a': [1, {'b': (2, [3, {4}])}]}, dict(width=10))
    add('indent2', 'container', {'a': [1, 2, {'b': 3}]}, dict(indent=2, width=12))
    add('ribbon', 'container', list(range(40)), dict(width=60, ribbon_width=20))
    add('uuid', 'lazy', uuid.UUID(int=7))
    add('uuid_list', 'lazy', [uuid.UUID(int=8)])
    add('enum', 'lazy', Col.R)
    add('enum_dict', 'lazy', {'k': Col.G})
    add('intenum', 'lazy', IE.X)
    add('ppath', 'lazy', pathlib.PurePosixPath('/a/b/c'))
    add('wpath', 'lazy', pathlib.PureWindowsPath('c:/a'))
    add('path_long', 'lazy', pathlib.PurePosixPath('/' + '/'.join('seg%d' % i for i in range(15))), dict(width=30))
    # the same characters as a path and as a plain string, at the same line budget (the path printer splits at '/')
    path_text = '/data/warehouse/region=eu-west-1/year=2024/month=02/part-00017.snappy.parquet-checksum.sha256'
    add('path_text_as_path', 'equal', pathlib.PurePosixPath(path_text), dict(width=40))
    add('path_text_as_path_default', 'equal', pathlib.PurePosixPath(path_text))
    add('path_text_as_str_default', 'equal', path_text)
    add('path_text_in_dict_default', 'equal', {'p': pathlib.PurePosixPath(path_text), 's': path_text})
    add('path_text_as_str', 'equal', path_text, dict(width=40))
    add('path_text_both', 'equal', [path_text, pathlib.PurePosixPath(path_text)], dict(width=44))
    add('partial', 'lazy', functools.partial(int, base=2))
    add('partialmethod', 'lazy', functools.partialmethod(int, 1))
    add('mproxy', 'lazy', types.MappingProxyType({'a': 1}))
    add('ast', 'lazy', ast.parse('1+x', mode='eval').body, dict(width=40), idfree=False)
    add('struct_time', 'cache', time.strptime('2000', '%Y'), dict(width=40))
    add('gmtime', 'cache', time.gmtime(0))
    add('stat', 'cache', os.stat_result(tuple(range(10))), dict(width=40))
    add('float_info', 'cache', sys.float_info)
    add('version_info', 'cache', sys.version_info)
    # several struct-sequence classes with the same number of fields
    add('times', 'cache', os.times_result((1.0, 2.0, 3.0, 4.0, 5.0)))
    add('terminal_size', 'cache', os.terminal_size((80, 24)))
    add('statvfs', 'cache', os.statvfs_result(tuple(range(10))), dict(width=40))
    add('struct_pair', 'cache', [sys.version_info, os.times_result((1.0, 2.0, 3.0, 4.0, 5.0))], dict(width=30))
    add('datetime', 'time', datetime.datetime(2020, 1, 2, 3, 4, tzinfo=datetime.timezone.utc))
    add('datetime_naive', 'time', datetime.datetime(2020, 1, 2, 3, 4, 5, 6))
    add('timedelta', 'time', datetime.timedelta(days=800, seconds=3))
    add('timedelta_neg', 'time', -datetime.timedelta(hours=5))
    add('date', 'time', datetime.date(2020, 1, 1))
    add('time', 'time', datetime.time(1, 2))
    add('timezone', 'time', datetime.timezone(datetime.timedelta(hours=2), 'X'))
    try:
        import pytz
        add('pytz', 'time', datetime.datetime(2020, 6, 1, 12, 0, tzinfo=pytz.utc))
        add('pytz_dst', 'time', pytz.timezone('Europe/Helsinki').localize(datetime.datetime(2020, 6, 1, 12)))
    except ImportError:
        pass
    add('ordereddict', 'collections', collections.OrderedDict(a=1, b=2))
    add('defaultdict', 'collections', dd)
    add('counter', 'collections', collections.Counter('aab'))
    add('deque', 'collections', collections.deque([1, 2], maxlen=3))
    add('deque_nomax', 'collections', collections.deque([[1], [2]]))
    add('chainmap', 'collections', collections.ChainMap({'a': 1}, {'b': 2}))
    add('namedtuple', 'collections', NT(1, 'x'))
    add('namespace', 'collections', types.SimpleNamespace(b=1, a=2))
    add('h_sub', 'harness', HSub(1, [2]))
    add('h_sub2', 'harness', HSub2(HSub(1)), dict(width=10))
    add('h_base', 'harness', HBase())
    add('h_unreg', 'harness', HUnreg())
    add('h_bad', 'harness', [HUnreg(), HBad()])
    add('h_mut', 'harness', HMut([3, 1, 2], {'b': 1, 'a': 2}))
    add('comment', 'comment', comment([1, comment(2, 'two')], 'top'))
    add('trailing', 'comment', trailing_comment([1, 2], 'more'))
    add('comment_long', 'comment', {'a': comment('v' * 90, 'cm'), 'b': 1})
    add('comment_dictkey', 'comment', {comment('k', 'key comment'): 1})
    long_note = 'the quick brown fox keeps running through the forest until it reaches the river bank at dawn'
    add('comment_wrapping', 'comment', {'k': comment('abcde' * 20, long_note)})
    add('comment_wrapping_w40', 'comment', [comment([1, 2, 3], long_note), comment('x', 'short')], dict(width=40))
    add('trailing_wrapping', 'comment', trailing_comment({'a': 1, 'b': [2, 3]}, long_note), dict(width=30))
    add('comment_top_wrapping', 'comment', comment({'a': 'v' * 60}, long_note + ' ' + long_note), dict(width=50))
    add('comment_value_long', 'comment', {'key': comment({'inner': list(range(12))}, long_note)}, dict(width=35))
    add('truncated_then_comment', 'comment', [list(range(30)), comment(1, long_note)], dict(max_seq_len=3, width=40))
    # a trailing-comment aware printer that fails with its own TypeError once (must not be remembered)
    add('tc_typeerror_bundled', 'comment', trailing_comment((4, 5), 'c'), dict(max_seq_len=None))
    add('tc_typeerror_harness', 'comment', trailing_comment(HTcOnce(True), 'bad one'))
    add('tc_ok_harness', 'comment', trailing_comment(HTcOnce(False), 'good one'))
    add('tc_list_again', 'comment', trailing_comment([1, 2, 3], 'and more'))
    add('tc_set_again', 'comment', [trailing_comment({1}, 'a set'), trailing_comment((1, 2), 'a tuple')], dict(width=10))
    holder = Holder()
    holder.target = {'a': [1, holder], 'b': (2,)}
    add('holder_target', 'reentrant', holder.target, idfree=True, nested=holder)
    add('holder_in_list', 'reentrant', [holder.target, 3], idfree=True, nested=holder)
    add('table', 'odd', {'t': Table(), 'more': [Table()]})
    add('comment_blank_lines', 'odd', [comment(1, 'one\n \ntwo'), trailing_comment([2, 3], 'ends with blanks   ')])
    add('str_trailing_blanks', 'odd', 'trailing blanks   ' * 8, dict(width=30))
    add('str_odd_chars', 'odd', ['\u2603 snowman', 'tab\there', 'nul\x00', 'quote\'"both', '\\backslash', '\U0001f600'], dict(width=20))
    add('memo_doc', 'memo', HMemo())
    add('memo_doc_nested', 'memo', {'m': [HMemo(), HMemo()]}, dict(width=30))
    add('memo_doc_w50', 'memo', HMemo(), dict(width=50))
    add('memo_doc_w120', 'memo', [HMemo()], dict(width=120, ribbon_width=100))
    # a struct sequence whose repr cannot be parsed for field names, next to healthy ones of the same class
    add('struct_unparsable', 'cache', time.struct_time((Weird(), 1, 1, 0, 0, 0, 0, 1, -1)), idfree=True)
    add('struct_after_unparsable', 'cache', time.struct_time((1999, 1, 1, 0, 0, 0, 4, 1, -1)), dict(width=40))
    add('dataclass', 'extras', DPoint(1, 2, ['a']))
    add('dataclass_defaults', 'extras', [DPoint(3), DPoint(4, 0, [])], dict(width=20))
    if APoint:
        add('attrs', 'extras', APoint(1, 2, ['a']))
        add('attrs_defaults', 'extras', {'p': APoint(3)})
    add('ipython_protocol', 'extras', IPy([1, [2, 3], IPy(['x' * 30, 'y' * 30])]), dict(width=40))
    # every family once more AT the depth limit (lazily built constants must not be built under it)
    for it in list(c):
        if it['family'] in ('time', 'collections', 'lazy', 'cache', 'container', 'scalar', 'str', 'extras', 'harness') \
                and 'depth' not in it['kw'] and not it['name'].startswith('h_bad'):
            add(it['name'] + '@depth2', it['family'], [it['value']], dict(it['kw'], depth=2), idfree=it['idfree'])
            add(it['name'] + '@depth1', it['family'], [it['value']], dict(it['kw'], depth=1), idfree=it['idfree'])
    add('timedelta_400', 'time', datetime.timedelta(days=400))
    # a print abandoned at layout time, followed by a print that allocates the same shapes again
    add('layout_raises', 'abort', ['early-%03d' % i for i in range(300)] + [Gauge()], dict(width=50), idfree=False)
    add('after_layout_raises', 'abort', ['later-%03d' % i for i in range(300)], dict(width=50))
    add('widget', 'nameclash', Widget('w1'))
    add('panel_widget', 'nameclash', [Panel.Widget(), Widget('w2')])
    add('late_leaf', 'late', LateLeaf(1), late=True)
    add('late_chain_sub', 'late', LSub(4), late=True)
    add('late_chain_all', 'late', [LTop(5), LMid(6), LSub(7)], late=True)
    add('late_mixed', 'late', {'k': [LateLeaf(2), LateBase(3)]}, late=True)
    # degenerate shapes: empty parts in odd positions
    add('chainmap_trailing_empty', 'degenerate', collections.ChainMap({'a': 1}, {}))
    add('chainmap_trailing_empties', 'degenerate', [collections.ChainMap({'a': 1}, {}, {})], dict(width=30))
    add('chainmap_leading_empty', 'degenerate', collections.ChainMap({}, {'b': 2}))
    add('chainmap_all_empty', 'degenerate', collections.ChainMap({}, {}))
    add('deque_maxlen0', 'degenerate', collections.deque([], maxlen=0))
    add('defaultdict_empty_values', 'degenerate', collections.defaultdict(list, a=[], b=[[]]))
    add('counter_zero_negative', 'degenerate', collections.Counter({'a': 0, 'b': -2, 'c': 3}))
    add('ordereddict_empty', 'degenerate', [collections.OrderedDict(), collections.OrderedDict(a=collections.OrderedDict())])
    add('nested_empties', 'degenerate', {'l': [[], [[]], ()], 'd': {'e': {}}, 's': [set(), frozenset()], 't': ((), ((),))})
    add('namespace_empty', 'degenerate', [types.SimpleNamespace(), types.SimpleNamespace(inner=types.SimpleNamespace())])
    add('mproxy_empty', 'degenerate', types.MappingProxyType({}))
    add('partial_no_args', 'degenerate', functools.partial(len))
    add('timedelta_zero', 'degenerate', [datetime.timedelta(0), datetime.timedelta(microseconds=1), datetime.timedelta(days=-1)])
    add('exception_no_args', 'degenerate', [ValueError(), KeyError('k'), OSError(2, 'x')])
    task = Task()
    add('task_owner', 'reentrant', task.owner, idfree=False)
    add('task', 'reentrant', {'t': task}, idfree=False)
    # volume: more distinct values than any small bounded cache holds
    add('many_floats', 'volume', [i / 7 for i in range(300)], dict(width=60))
    add('many_strs', 'volume', ['s%03d' % i for i in range(300)], dict(width=60))
    add('many_comments', 'volume', [comment(i, 'note %d' % i) for i in range(140)])
    add('many_keys', 'volume', {('k%03d' % i): i for i in range(200)}, dict(width=50))
    add('h_re_sub', 'harness', HReSub(1))
    add('h_re', 'harness', HRe(2))
    add('h_re_both', 'harness', [HReSub(), HRe()])
    add('reentrant', 'reentrant', [Reentrant([1, 2, 3]), {'k': Reentrant({'b': 1, 'a': [2, 3]})}])
    add('reentrant_lazy', 'reentrant', Reentrant(uuid.UUID(int=9)))
    # the re-entrant print happens inside the look-ahead of an outer group that must break
    add('reentrant_long', 'reentrant', ['first element', Reentrant([1, 2, 3]), 'x' * 40, 'y' * 40], dict(width=79))
    add('reentrant_long_dict', 'reentrant', {'k': Reentrant({'a': 1}), 'long': ['z' * 30, 'w' * 30, 'v' * 30]}, dict(width=60))
    add('oldstyle', 'reentrant', {'old': OldStyle([1, 2, {'z': 1, 'a': 2}]), 'more': [OldStyle(Col.R)] * 2})
    add('cyclic', 'cycle', cyc, idfree=False)
    add('cyclic_depth', 'cycle', [cyc, cyc], dict(depth=3), idfree=False)
    add('sorted', 'sort', {'b': 1, 'a': 2}, dict(sort_dict_keys=True))
    add('sorted_mixed', 'sort', {3: 0, 'b': 0, 1: 0, 'a': 0, 2: 0, (1,): 0, None: 0, 2.5: 0},
        dict(sort_dict_keys=True))
    add('sorted_nested', 'sort', {'z': {2: 'b', 1: 'a'}, 'y': [{'q': 1, 'p': 2}]}, dict(sort_dict_keys=True, width=10))
    add('sorted_incomparable', 'sort', {1j: 'a', 2j: 'b', 'x': 0, 3: 1}, dict(sort_dict_keys=True), idfree=False)
    # -- values that compare equal (often hash equal) but must print differently
    import decimal
    import fractions

    class Col2(enum.Enum):
        R = 1
        G = 2
    add('zero_pos', 'equal', 0.0)
    add('zero_neg', 'equal', -0.0)
    add('zeros', 'equal', [0.0, -0.0, 0, False])
    add('one_int', 'equal', 1)
    add('one_float', 'equal', 1.0)
    add('one_true', 'equal', True)
    add('ones', 'equal', [1, 1.0, True, MyInt(1), complex(1, 0), decimal.Decimal(1), fractions.Fraction(1, 1)])
    add('myint', 'equal', MyInt(1))
    add('mystr', 'equal', MyStr('x' * 100))
    add('mystr_short', 'equal', [MyStr('leaf'), 'leaf'])
    add('mylist', 'equal', MyList([1, 2.5, None, True, ...]))
    add('tuple_like_nt', 'equal', (1, 'x'))
    add('set_one', 'equal', {1})
    add('dict_ab', 'equal', {'a': 1, 'b': 2})
    add('dict_counter_like', 'equal', {'a': 2, 'b': 1})
    add('int3', 'equal', 3)
    add('enum2', 'equal', [Col2.R, Col.R])
    add('bytes_vs_bytearray', 'equal', [b'ab', bytearray(b'ab')])
    add('twin_a', 'equal', TwinA(1))
    add('twin_b', 'equal', TwinB(1))
    add('nt_other', 'equal', collections.namedtuple('NT', 'a b')(1, 'x'))
    # -- instance-dependent predicate
    add('state_on', 'state', HState(True, 'on'))
    add('state_off', 'state', HState(False, 'off'))
    add('state_mixed', 'state', [HState(False, 'off'), HState(True, 'on')])
    add('state_mixed2', 'state', [HState(True, 'on'), HState(False, 'off')])
    # -- one and the same object under different settings
    same = {'k': [1, 2, 3, {'z': 1, 'a': [4, [5, [6]]]}], 'j': 'word ' * 12}
    add('same_default', 'same', same)
    add('same_w20', 'same', same, dict(width=20))
    add('same_indent2', 'same', same, dict(indent=2, width=30))
    add('same_depth1', 'same', same, dict(depth=1))
    add('same_seq2', 'same', same, dict(max_seq_len=2))
    add('same_sorted', 'same', same, dict(sort_dict_keys=True))
    add('same_ribbon', 'same', same, dict(width=60, ribbon_width=15))
    add('truncated', 'limits', list(range(30)), dict(max_seq_len=5))
    add('truncated_dict', 'limits', {i: i for i in range(10)}, dict(max_seq_len=2))
    add('truncated_set', 'limits', set(range(10)), dict(max_seq_len=3))
    add('depth', 'limits', [[[[1]]]], dict(depth=2))
    add('depth0', 'limits', {'a': [1]}, dict(depth=0))
    add('exception', 'misc', ValueError('x', 1))
    add('types', 'misc', [int, len, datetime.datetime, collections.OrderedDict])
    add('bound_builtin', 'misc', [1].append, idfree=False)
    add('function', 'misc', build_corpus)
    return c


def register_harness():
    from prettyprinter import register_pretty, pretty_call, install_extras
    # bundled extras: predicate printers with their own module state
    # one at a time: install_extras walks a *set* of names, whose order would depend on PYTHONHASHSEED
    for extra in ['dataclasses', 'ipython_repr_pretty'] + (['attrs'] if APoint else []):
        install_extras(include=[extra], raise_on_error=True)

    @register_pretty(HBase.__module__ + '.' + HBase.__qualname__)
    def pb(v, ctx):
        return pretty_call(ctx, type(v), *v.a)

    @register_pretty(HBad)
    def pbad(v, ctx):
        raise ValueError('x')

    @register_pretty(predicate=lambda v: isinstance(v, HState) and v.flag)
    def pstate(v, ctx):
        return pretty_call(ctx, type(v), v.flag, name=v.name)

    @register_pretty(TwinA)
    def ptwin_a(v, ctx):
        return pretty_call(ctx, 'TwinA', v.x)

    @register_pretty(TwinB)
    def ptwin_b(v, ctx):
        return pretty_call(ctx, 'TwinB', x=v.x)

    @register_pretty(HRe)
    def pre_old(v, ctx):
        return pretty_call(ctx, type(v), *v.a, printer='direct')

    @register_pretty(HRe.__module__ + '.' + HRe.__qualname__)
    def pre_new(v, ctx):
        return pretty_call(ctx, type(v), *v.a, printer='by-name')

    from prettyprinter.doc import contextual

    @register_pretty(Reentrant)
    def preent(v, ctx):
        def evaluator(indent, column, page_width, ribbon_width):
            return 'Reentrant<%s>' % P.pformat(v.inner, width=200).replace('\n', ' ')
        return contextual(evaluator)

    from prettyprinter.doc import always_break, group as _group, concat as _concat, nest as _nest, LINE as _LINE, \
        SOFTLINE as _SOFTLINE
    memo = {}

    @register_pretty(HMemo)
    def pmemo(v, ctx):
        if 'doc' not in memo:
            # a group whose Concat has a forced-break child: the break must survive every normalisation
            memo['doc'] = _group(_concat([
                'HMemo(',
                always_break(_concat([_nest(4, _concat([_SOFTLINE, 'a=1,', _LINE, contextual(
                    lambda indent, column, page_width, ribbon_width: 'page_width=%d' % page_width)])), _SOFTLINE])),
                ')']))
        return memo['doc']

    @register_pretty(Gauge)
    def pgauge(v, ctx):
        def evaluator(indent, column, page_width, ribbon_width):
            raise RuntimeError('gauge cannot be laid out')
        return contextual(evaluator)

    @register_pretty(Widget.__module__ + '.' + Widget.__qualname__)
    def pwidget(v, ctx):
        return pretty_call(ctx, type(v), name=v.name)

    @register_pretty(LTop)
    def pltop(v, ctx):
        return pretty_call(ctx, type(v), v.n, via='top')

    @register_pretty(HTcOnce)
    def ptc_once(v, ctx, trailing_comment=None):
        if v.bad:
            raise TypeError('unsupported operand for this one instance')
        return pretty_call(ctx, type(v), v.bad, note=trailing_comment or '-')

    @register_pretty(HMut)
    def pmut(v, ctx):
        return pretty_call(ctx, type(v), *[sorted(x) for x in v.a])


def setup(fresh=True):
    global P, PP
    P, PP = core.import_package()
    register_harness()
    CORPUS[:] = build_corpus()
    refs = []
    for i in range(len(CORPUS)):
        kind, r = core.in_fork(lambda i=i: call(i), 60)
        if kind != 'ok':
            raise core.HarnessError('reference for %s failed: %s' % (CORPUS[i]['name'], r))
        refs.append(r)
    REF[:] = refs
    for i, it in enumerate(CORPUS):
        if it.get('late'):
            kind, r = core.in_fork(lambda i=i: (late_register(), call(i))[1], 60)
            if kind != 'ok':
                raise core.HarnessError('late reference failed: %s' % (r,))
            REF_LATE[i] = r
    if fresh:
        _fresh_refs()


def _fresh_refs():
    """Each id-free item printed as the very first call of a genuinely fresh interpreter."""
    idx = [i for i, it in enumerate(CORPUS) if it['idfree']]
    env = dict(os.environ, PYTHONHASHSEED='0', VERIF_REPO=core.REPO)

    def one(i):
        p = subprocess.run([sys.executable, os.path.join(os.path.dirname(HERE), 'tools', 'c19_fresh.py'), str(i)],
                           env=env, stdout=subprocess.PIPE, stderr=subprocess.PIPE, timeout=120)
        if p.returncode != 0:
            raise core.HarnessError('fresh interpreter failed for %s: %s' % (
                CORPUS[i]['name'], p.stderr.decode()[-500:]))
        return i, json.loads(p.stdout.decode())
    with ThreadPoolExecutor(max_workers=min(16, os.cpu_count() or 1)) as ex:
        for i, text in ex.map(one, idx):
            FRESH[i] = text


# ------------------------------------------------------------------ fingerprint
def snap(v, seen=None, depth=0):
    seen = seen if seen is not None else set()
    if id(v) in seen or depth > 20:
        return ('cyc', id(v))
    t = type(v).__name__
    if isinstance(v, (list, tuple, collections.deque)):
        seen.add(id(v))
        r = (t, id(v), [snap(x, seen, depth + 1) for x in v], getattr(v, 'maxlen', None),
             snap(vars(v), seen, depth + 1) if hasattr(v, '__dict__') else None)
        seen.discard(id(v))
        return r
    if isinstance(v, collections.ChainMap):
        seen.add(id(v))
        r = (t, id(v), [snap(m, seen, depth + 1) for m in v.maps])
        seen.discard(id(v))
        return r
    if isinstance(v, (dict, types.MappingProxyType)):
        seen.add(id(v))
        items = [(snap(k, seen, depth + 1), snap(x, seen, depth + 1)) for k, x in v.items()]
        r = (t, id(v), items, repr(getattr(v, 'default_factory', None)))
        seen.discard(id(v))
        return r
    if isinstance(v, (set, frozenset)):
        return (t, id(v), sorted(map(repr, v)))
    if hasattr(v, '__dict__') and not isinstance(v, type) and not callable(v):
        seen.add(id(v))
        r = (t, id(v), [(k, snap(x, seen, depth + 1)) for k, x in vars(v).items()])
        seen.discard(id(v))
        return r
    if hasattr(v, 'value') and hasattr(v, 'comment') and type(v).__module__.startswith('prettyprinter'):
        return (t, snap(v.value, seen, depth + 1), v.comment)
    try:
        return (t, repr(v))
    except Exception:
        return (t, id(v))


def late_register():
    """what a late install_extras() does: a by-name registration arriving after values were printed"""
    if not LATE_DONE[0]:
        LATE_DONE[0] = True
        P.register_pretty(LateBase.__module__ + '.' + LateBase.__qualname__)(
            lambda v, ctx: P.pretty_call(ctx, type(v), n=v.n))
        P.register_pretty(LMid.__module__ + '.' + LMid.__qualname__)(
            lambda v, ctx: P.pretty_call(ctx, type(v), v.n, via='mid'))


def call(i):
    it = CORPUS[i]
    before = snap(it['value'])
    with warnings.catch_warnings():
        warnings.simplefilter('ignore')
        try:
            t = P.pformat(it['value'], **it['kw'])
        except Exception as e:
            t = 'RAISED %s: %s' % (type(e).__name__, str(e)[:200])
    ok = snap(it['value']) == before
    nested_ok = True
    if it.get('nested') is not None and not t.startswith('RAISED'):
        # every pformat(target) that ran nested inside this print must equal the same call made now,
        # with no print in progress (the harness' own depth guard put in the same state)
        rec, Holder.record[:] = list(Holder.record), []
        Holder.depth = 1
        try:
            standalone = P.pformat(it['nested'].target)
        finally:
            Holder.depth = 0
        Holder.record[:] = []
        nested_ok = bool(rec) and all(x == standalone for x in rec)
    return [t, ok, nested_ok]


# ------------------------------------------------------------------ generation / execution
def generate(rng, idx, tier):
    n = len(CORPUS)
    fams = sorted(set(it['family'] for it in CORPUS))
    length = rng.choice([3, 5, 10, 20, 40, 60])
    clustered = rng.random() < 0.4
    p_cc = rng.choice([0.0, 0.05, 0.2])
    ops = []
    pool = list(range(n))
    if clustered:
        f = rng.sample(fams, rng.randrange(1, 4))
        pool = [i for i in pool if CORPUS[i]['family'] in f]
    for _ in range(rng.randrange(3, length + 1)):
        if rng.random() < p_cc:
            ops.append('cc')
        if rng.random() < 0.03:
            ops.append('reg')
        if ops and rng.random() < 0.15:
            prev = [o for o in ops if o not in ('cc', 'reg')]
            if prev:
                ops.append(rng.choice(prev))    # repetition
                continue
        ops.append(rng.choice(pool))
    return dict(ops=ops)


def execute(spec):
    counters = {}
    res = dict(steps=len(spec['ops']), counters=counters, nontrivial=False,
               digest=core.digest_of(spec['ops']), **{'class': None})
    done = []
    for k, op in enumerate(spec['ops']):
        if op == 'cc':
            PP.pretty_dispatch._clear_cache()
            counters['dispatch_cache_cleared'] = counters.get('dispatch_cache_cleared', 0) + 1
            continue
        if op == 'reg':
            late_register()
            counters['late_registrations'] = counters.get('late_registrations', 0) + 1
            continue
        t, same, nested_ok = call(op)
        counters['calls'] = counters.get('calls', 0) + 1
        if done:
            res['nontrivial'] = True
        if op in done:
            counters['repeated_calls'] = counters.get('repeated_calls', 0) + 1
        done.append(op)
        name = CORPUS[op]['name']
        if not same:
            res.update({'class': 'input_mutated'}, signature=name,
                       detail=dict(item=name, position=k, history=[CORPUS[o]['name'] if o not in ('cc', 'reg') else o
                                                                     for o in spec['ops'][:k + 1]]))
            return res
        if not nested_ok:
            res.update({'class': 'nested_call_differs'}, signature=name,
                       detail=dict(item=name, position=k, note='a pformat call made from a __repr__ while an outer print '
                                   'of the same container is in progress returned a different text than the same '
                                   'call made with no print in progress', outer_text=t[:400]))
            return res
        ref_text = REF_LATE[op][0] if (LATE_DONE[0] and op in REF_LATE) else REF[op][0]
        if t != ref_text:
            res.update({'class': 'history_dependent'}, signature=name,
                       detail=dict(item=name, position=k, got=t[:500], first_call_reference=ref_text[:500],
                                   history=[CORPUS[o]['name'] if o not in ('cc', 'reg') else o for o in spec['ops'][:k + 1]]))
            return res
        if op in FRESH and not (LATE_DONE[0] and op in REF_LATE) and t != FRESH[op]:
            res.update({'class': 'differs_from_fresh_interpreter'}, signature=name,
                       detail=dict(item=name, got=t[:500], fresh=FRESH[op][:500]))
            return res
    res['sample'] = [CORPUS[o]['name'] if o not in ('cc', 'reg') else o for o in spec['ops'][:12]]
    return res


def run(spec):
    return core.in_fork(lambda: execute(spec), RUN_TIMEOUT)


def on_timeout(spec):
    return None


def normalise(spec):
    return spec if any(o not in ('cc', 'reg') for o in spec['ops']) else None


def shrinkers(spec):
    return [('list', lambda sp: sp['ops'], lambda sp, ops: dict(sp, ops=list(ops)))]


def extra_evidence(st):
    return dict(corpus_items=len(CORPUS), corpus=[it['name'] for it in CORPUS],
                fresh_interpreter_references=len(FRESH),
                fault_kinds={'dispatch_cache_cleared (buggify)': st.counters.get('dispatch_cache_cleared', 0)},
                simulated_time='calls applied (field simulated_steps)')
